"""bin/check <Cxx> quick|thorough   |   bin/check <Cxx> --replay <file>"""
from __future__ import annotations

import importlib
import json
import os
import sys
import traceback

from .core import Ctx, MachineryError, import_repo, matches, short, shrink

LEVELS = {"C04": "fault_enumeration", "C10": "fault_enumeration"}


def replay(prop, path):
    import_repo()
    with open(path) as f:
        r = json.load(f)
    mod = importlib.import_module(f"vp.props.{prop.lower()}")
    if r.get("kind") == "driver-exception":
        print(f"recorded: the library raised {r.get('exception')}: {r.get('message')}\n at {r.get('traceback')}\n"
              f"re-running the quick check of {prop} ...")
        return main([prop, "quick"])
    if hasattr(mod, "replay") and r.get("kind") != "event":
        ok, text = mod.replay(r)
    else:
        from .ops import perform
        e = r["event"]
        if e.get("origin"):                  # an observation made inside another operation: run that operation again
            from . import core
            del core.SIDE[:]
            perform(e["origin"]["op"], e["origin"]["a"])
            cand = [x for x in core.SIDE if x["op"] == e["op"] and x["a"].get("cls") == e["a"].get("cls")]
            del core.SIDE[:]
            same = [x for x in cand if x["a"] == e["a"]]
            out = (same or cand or [{"o": {"gone": True}}])[0]["o"]
            if not same and cand:
                print("the object's own getters now report something else than when the violation was recorded; comparing the "
                      "re-observed pack() with the recorded expectation is not meaningful - re-run the check")
                out = r["expected"]
        elif isinstance(e.get("a"), dict) and e["a"].get("zone"):
            # an operation observed in a process of another time zone: run it there again
            import subprocess
            code = ("import os, sys, json, time\nos.environ['TZ'] = sys.argv[1]; time.tzset()\n"
                    "from vp.core import import_repo; import_repo()\nfrom vp.ops import perform\n"
                    "e = json.loads(sys.stdin.read())\nprint(json.dumps(perform(e['op'], e['a'])))\n")
            env = dict(os.environ)
            env["PYTHONPATH"] = os.path.dirname(os.path.dirname(os.path.abspath(__file__)))
            pr = subprocess.run([sys.executable, "-c", code, e["a"]["zone"]], input=json.dumps(e), capture_output=True, text=True, env=env)
            try:
                out = json.loads(pr.stdout.strip().splitlines()[-1])
            except Exception:  # noqa
                out = {"exc": "UNDOC:process-in-zone-" + e["a"]["zone"]}
        elif "test" in e:                   # a call made by one of the repository's own tests: run them again, recorded
            from . import repotests
            out = repotests.reobserve(e)
            if out is None:
                print(f"the test {e['test']} no longer makes this call")
                out = perform(e["op"], e["a"]) if e["op"] != "obs.pack" else r["expected"]
        else:
            out = perform(e["op"], e["a"])
        ok = matches(r["expected"], out)
        text = (f"op {e['op']}\n args     {short(shrink(e['a']), 900)}\n expected {short(shrink(r['expected']), 900)}"
                f"\n observed {short(shrink(out), 900)}")
    print(text)
    if ok:
        print(f"replay: property {prop} holds on this input now")
        return 0
    print(f"VIOLATION property={prop} replay={path}")
    return 1


def main(argv):
    if len(argv) < 2:
        print(__doc__)
        return 2
    prop = argv[0].upper()
    if argv[1] == "--replay":
        return replay(prop, argv[2])
    tier = argv[1]
    if os.environ.get("VERIF_TIER") in ("quick", "thorough") and tier not in ("quick", "thorough"):
        tier = os.environ["VERIF_TIER"]
    seed = int(os.environ.get("VERIF_SEED", "20260928"))
    ctx = None
    try:
        ctx = Ctx(prop, tier, seed, LEVELS.get(prop, "model_checking"))
        mod = importlib.import_module(f"vp.props.{prop.lower()}")
        mod.run(ctx)
        return ctx.finish()
    except MachineryError as e:
        print(f"MACHINERY-ERROR {prop}: {e}", file=sys.stderr)
        if ctx:
            ctx.abort_cleanup()
        return 2
    except Exception as ex:
        traceback.print_exc()
        # An exception that comes OUT OF THE LIBRARY while a driver prepares its inputs (packing a valid unit, building an
        # object from legal arguments - calls that succeed on a tree where the property holds) is a deviation of the library,
        # not a failure of the machinery: it is reported as a violation.
        repo = os.path.abspath(os.environ.get("VERIF_REPO", "/repo")) + os.sep
        frames = traceback.extract_tb(ex.__traceback__)
        lib = [f for f in frames if os.path.abspath(f.filename).startswith(repo)]
        if ctx and lib:
            last = lib[-1]
            try:
                ctx.violation(f"driver/{type(ex).__name__}/{os.path.basename(last.filename)}:{last.name}",
                              f"the library raised {type(ex).__name__}: {ex} in {os.path.basename(last.filename)}:{last.lineno} "
                              f"({last.name}) while the driver was preparing valid inputs; the check could not be completed",
                              {"kind": "driver-exception", "exception": type(ex).__name__, "message": str(ex)[:300],
                               "traceback": [f"{os.path.basename(f.filename)}:{f.lineno}:{f.name}" for f in frames][-12:]})
                return ctx.finish()
            except Exception:  # noqa
                traceback.print_exc()
        print(f"MACHINERY-ERROR {prop}: unexpected exception in the harness", file=sys.stderr)
        if ctx:
            ctx.abort_cleanup()
        return 2


if __name__ == "__main__":
    sys.exit(main(sys.argv[1:]))
