"""Single table from which MANIFEST.json is generated (bin/gen_manifest)."""

BASELINE = "cd /repo && /venv/bin/python -m pytest -ra -q -p no:cacheprovider --timeout=900 --continue-on-collection-errors"

COMMON_NOTE = ("Trusted: TLC 1.8 evaluating the TLA+ modules under /verif/spec (written from the standards' field tables), "
               "the attribute-reading adapters in harness/vp/ops_*.py, and the convention that values >= 2^31 travel as "
               "big-endian octet lists. Bounded grids are exhaustive; beyond them inputs are enumerated per field or sampled "
               "from VERIF_SEED - not a proof for all inputs. Every adapter applies the history / aliasing / ownership / "
               "spelling probes of DESIGN.md I.7 around the call under test, and the calls the repository's own tests make are "
               "recorded (pytest plugin, no source edit) and validated by TLC as one more stage (DESIGN.md I.2).")

# id -> (claimed?, category, technique, text, design_ref, extra note / not-applicable reason)
CHECKS = {
    "C01": (True, "model_checking",
            "TLA+ codec spec; TLC grid model checking + vector replay into code; TLC trace validation of recorded calls",
            "TLC model-checks the header laws (decode.encode = id, encode.decode = first six octets, word views, length) on a "
            "65 536-header grid plus refusal/decoder grids and every emitted vector is executed on the real classes; "
            "recorded calls covering every 16-bit value of each header word and every value of each validated field are "
            "validated by TLC against the same specification.", "DESIGN.md 5/C01", ""),
    "C02": (True, "model_checking",
            "TLA+ codec spec (CRC-16 in TLA+); TLC grid model checking + vector replay; TLC trace validation",
            "TLC checks round-trip / suffix-freeness / prefix-rejection laws of the TC format on a bounded grid including "
            "an adversarial short-declared-length family constructed inside TLA+, every vector is executed on the code, and "
            "recorded round trips and raw decodes (boundary catalogues, random, data up to the size limit) are validated "
            "by TLC.", "DESIGN.md 5/C02", ""),
    "C03": (True, "model_checking",
            "TLA+ codec spec (CRC-16 in TLA+); TLC grid model checking + vector replay; TLC trace validation",
            "As C02 for telemetry with the timestamp length as configuration axis (0..40), the service-17 wrapper and the "
            "generic space-packet view.", "DESIGN.md 5/C03", ""),
    "C04": (True, "fault_enumeration",
            "TLA+ fault model (burst injection, length-octet guard, Inv_Detect on the spec's own decoders, MC_Crc burst theorem); "
            "TLC-enumerated fault schedules replayed on the code; TLC trace validation of random faults",
            "Faults.tla enumerates every single-bit flip and the all-ones / two-ends bursts of every width 2..16 at every bit "
            "offset outside the length-determining octets of packed TC / TM / the 8 PDU kinds with CRC; TLC checks that the "
            "specification's decoders refuse each corrupted packet and, in MC_Crc, that no burst of <= 16 bits has CRC 0 "
            "(all 32 768 shapes); each schedule is executed on the real code through the class decoder and the generic entry "
            "(factory / check_pus_crc), which must refuse with a documented error; clean packets (also after setters) must be "
            "accepted; random interior burst patterns on random packets are validated by TLC.", "DESIGN.md 5/C04", ""),
    "C05": (True, "model_checking",
            "TLA+ codec spec; TLC grid model checking + vector replay; TLC trace validation of recorded calls",
            "TLC checks header round-trip / length / no-swap / reject laws over all 2^7 flag combinations x 16 width pairs x ID "
            "patterns x length grid and the decoder's (octet 1, octet 4) accept/reject table; every vector is executed on "
            "PduHeader; recorded calls (random IDs over the full width, all data-field lengths, all 65 536 (octet1, octet4) "
            "pairs) are validated by TLC.", "DESIGN.md 5/C05", ""),
    "C06": (True, "model_checking",
            "TLA+ codec spec of the 7 directives (layouts from 727.0-B-5 5.2); TLC grid model checking + vector replay; "
            "TLC trace validation",
            "PduEnc/PduDec for the seven directives are model-checked (round trip, data-field-length law, CRC trailer law, "
            "re-pack, suffix-freeness, every strict prefix rejected) over full enum cross products x header configurations; "
            "every vector is executed on the PDU classes and recorded random round trips (full 32/64-bit range, oversize "
            "values) are validated by TLC.", "DESIGN.md 5/C06", ""),
    "C07": (True, "model_checking",
            "TLA+ codec spec of the File Data PDU; TLC grid model checking + vector replay; TLC trace validation",
            "As C06 for the File Data PDU: offsets at the 32/64-bit boundaries, empty / TLV-looking / long data, segment "
            "metadata 0..63 (64 refused), all header configurations, plus the max-segment-length helper.", "DESIGN.md 5/C07", ""),
    "C08": (True, "model_checking",
            "TLA+ codec spec of LV/TLV and the six concrete TLVs; TLC grid model checking + vector replay (incl. the full "
            "type-mismatch matrix); TLC trace validation",
            "LV/TLV and concrete-TLV layouts are model-checked (round trip, exact consumption, cross-class decode is a type "
            "mismatch) and every vector incl. the 6 x 5 x 3 mismatch matrix is executed on the classes via unpack / from_tlv / "
            "TlvHolder; random round trips are validated by TLC.", "DESIGN.md 5/C08", ""),
    "C09": (True, "model_checking",
            "TLA+ suffix-freeness / split laws over all unit decoders; TLC grid model checking + vector replay; TLC trace validation",
            "For every self-delimiting unit kind the specification's expectation of a decode is independent of what follows the "
            "unit; TLC checks the suffix law and SplitOk (back-to-back units split by the decoders' consumed lengths) on the "
            "specification and every vector - each unit kind x an adversarial suffix family (TLV-like, segment-request-like, the "
            "unit's own CRC, further valid packets) and streams of all ordered pairs of 18 unit kinds - is executed on the code; "
            "random units / suffixes / streams are recorded and validated by TLC.", "DESIGN.md 5/C09", ""),
    "C10": (True, "fault_enumeration",
            "TLA+ robustness layer (entry-point table, prefix-rejection law on the spec's decoders); TLC-enumerated truncations / "
            "substitutions replayed on every public decoder; TLC trace validation of random inputs",
            "For 50 public decode entry points TLC enumerates every truncation point and header / length / type octet "
            "substitutions of sample units, cross-kind decodes and foreign decoder parameters; the specification marks which "
            "inputs are strict prefixes of a unit its own decoder accepts exactly (these must be refused; Inv_PrefixRejected "
            "holds on the spec) and every other outcome must be an object or a documented error family within 5 s; seeded random "
            "octet strings and randomly cut / mutated valid units are recorded and validated by TLC.", "DESIGN.md 5/C10", ""),
    "C11": (True, "model_checking",
            "TLA+ lifecycle state machine per mutable class (kept length recomputed from format parts); TLC exhaustive over all "
            "setter / pack / reload sequences; every transition replayed on real objects; TLC trace validation of random histories",
            "Lifecycle.tla models each object as (configuration, values, kept length) with one action per documented setter, "
            "pack and reload; TLC explores the complete graph of each of the 9 classes and checks that the kept length always "
            "equals what the independently specified encoder produces, that a fresh object with the final values encodes "
            "identically and that reload is stable; every transition is executed on the real class comparing octets, reported "
            "length, inner length field, fresh-object octets, pack-twice, equality across pack and the caller's objects; random "
            "histories with random arguments are validated by Trace_Lifecycle.", "DESIGN.md 5/C11",
            "Caller objects are compared across construction and pack (setters may write through to a params object the caller shares)."),
    "C12": (True, "model_checking",
            "TLA+ dispatch spec (PduDec with want='any', raw inspectors, holder matrix); TLC grid + vector replay; trace validation",
            "The factory's dispatch is specified as PduDec(b, any) and model-checked to agree with the per-kind decoders for all "
            "8 kinds x 128 header configurations; each vector runs PduFactory.from_raw / from_raw_to_holder / inspectors and "
            "the 8 x 8 accessor matrix on the code.", "DESIGN.md 5/C12", ""),
    "C13": (True, "model_checking",
            "TLA+ state machine of the stream parser; TLC exhaustive over all fragmentations/interleavings; every transition "
            "replayed on the real function; TLC trace validation of recorded random histories",
            "SpParser.tla is model-checked over every append/parse interleaving and every cut position of bounded streams "
            "(Inv_Prefix, Inv_Tail, Inv_Done, Inv_Prompt, Act_ExactlyOnce); each explored transition is executed on the real "
            "parse_space_packets both from the materialised pre-state and along real paths; random long histories of real PUS "
            "packets are validated by the Trace_SpParser trace specification.", "DESIGN.md 5/C13", ""),
    "C14": (True, "model_checking",
            "TLA+ spec of the CDS short time code with integer calendar arithmetic; TLC grid model checking + vector replay; "
            "TLC trace validation of recorded calls",
            "Cds.tla gives the 7-octet layout, the instant of a stamp as (Unix day, ms) pair, civil-from-days / days-from-civil "
            "in integer arithmetic, from-datetime and timedelta addition with carry and overflow; TLC checks round-trip, "
            "calendar-inverse, epoch, normalisation and monotonicity laws on boundary grids and every vector is executed on "
            "CdsShortTimestamp (pack, three decode routes, Unix-seconds and datetime views, from_datetime, +); random stamps, "
            "datetimes over 1958..2137 at microsecond resolution, additions around midnight / day 65535 and ordered pairs are "
            "recorded and validated by TLC.", "DESIGN.md 5/C14",
            "Unix seconds are a float: accepted within 1 microsecond of the exact value."),
    "C15": (True, "model_checking",
            "TLA+ codec spec of request ID / service-1 reports; TLC grid model checking + vector replay; TLC trace validation "
            "(request-ID halves exhaustive)",
            "Pus1.tla states the request ID as the first four header octets and the report source-data layout; TLC checks "
            "round-trip, header-prefix and injectivity laws on the grid and every vector (8 subservices x step / failure "
            "options x widths x routes incl. the create_* helpers for real telecommands, prefixes, foreign widths) is executed "
            "on the code; RequestId.unpack is recorded for all 2^16 values of each half and validated by TLC together with "
            "random reports.", "DESIGN.md 5/C15", ""),
    "C16": (True, "model_checking",
            "TLA+ state machine of the verification tracker; TLC exhaustive over all report histories of 2 TCs; every "
            "transition replayed on real PusVerificator objects; TLC trace validation of random histories",
            "Verificator.tla (one action per public call) is model-checked against 12 invariants / action properties; every "
            "transition of the emission configuration is executed on the real class with the whole verif_dict and the returned "
            "value compared; random histories over up to 6 telecommands are validated by Trace_Verificator.", "DESIGN.md 5/C16", ""),
    "C17": (True, "model_checking",
            "TLA+ spec of USLP headers and frames (total frame decoder over managed parameters); TLC grid model checking + "
            "vector replay; TLC trace validation",
            "Uslp.tla gives the header bit layout, the frame composition and a total decoder parameterised by the managed "
            "parameters; TLC checks header / frame round trip, length and frame-length-field, prefix refusal, trailing-octet and "
            "mismatch laws on the grid, every vector (IDs straddling octet boundaries, VCF lengths 0..7, refusals incl. negative "
            "IDs, 8 rules x frame types, 13 managed-parameter variants per sample) is executed on the classes, and random "
            "headers / frames / perturbed parameter sets are recorded and validated by TLC.", "DESIGN.md 5/C17", ""),
    "C18": (True, "model_checking",
            "TLA+ spec of the nine reserved CFDP message kinds; TLC grid model checking + vector replay; TLC trace validation",
            "CfdpMsg.tla gives the 'cfdp' + type + fields layout of every reserved message inside a message-to-user TLV, the "
            "classification sets and an independent parameter reader; TLC checks that the TLV decodes, is recognised as reserved "
            "and yields the original parameters, every vector (all ID width pairs, enum members, name grid, full / overfull "
            "value field, non-reserved and non-UTF-8 contents) is executed on the classes via unpack / from_tlv / TlvHolder, and "
            "random messages and message octets are recorded and validated by TLC.", "DESIGN.md 5/C18", ""),
    "C19": (True, "model_checking",
            "TLA+ state machine of the counters incl. character-level file model; TLC exhaustive for widths 1..4 with restarts "
            "and file faults; every transition replayed on real providers/files; TLC trace validation of histories > 2^W",
            "SeqCount.tla is model-checked with a restart (new instance on the same file) enabled between any two calls, with and "
            "without injected file faults; every transition is executed on real provider objects and a real file; histories longer "
            "than 2^W calls (W = 14, 8, 16 ...) with random restart points are validated by Trace_SeqCount.", "DESIGN.md 5/C19", ""),
    "C20": (True, "model_checking",
            "TLA+ spec of byte fields / conversion helpers; TLC grid model checking + vector replay; TLC trace validation "
            "(exhaustive for widths 0, 1, 2)",
            "ByteField.tla defines the field as (width, exactly-width octets) with the int / len / octet / hex views, the refusal "
            "rules, assignment and octet-wise two's complement; TLC checks coherence laws on the grid and every vector is "
            "executed on UnsignedByteField, ByteFieldU8..U64/Empty, ByteFieldGenerator and IntByteConversion; all 65 793 fields "
            "of width <= 2 and random 32/64-bit values, from-bytes inputs, assignments and equality pairs are recorded and "
            "validated by TLC.", "DESIGN.md 5/C20", ""),
}
NOT_YET = {}
for _i in []:
    NOT_YET[f"C{_i:02d}"] = "check not built yet in this revision of /verif (construction in progress, see DESIGN.md 11)"
