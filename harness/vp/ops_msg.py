"""Adapters for reserved CFDP messages (proxy operations, directory listing, originating transaction ID)."""
from __future__ import annotations

from .core import outcome, octs, owned
from .ops_cfdp import bf


def mk_msg(kind, p):
    from spacepackets.cfdp.tlv import msg_to_user as M
    from spacepackets.cfdp.lv import CfdpLv
    from spacepackets.cfdp.defs import ConditionCode, DeliveryCode, FileStatus, TransmissionMode, TransactionId
    if kind == "put_request":
        return M.ProxyPutRequest(M.ProxyPutRequestParams(bf(p["dest"]), CfdpLv(bytes(p["src"])), CfdpLv(bytes(p["dst"]))))
    if kind == "put_response":
        return M.ProxyPutResponse(M.ProxyPutResponseParams(ConditionCode(p["cond"]), DeliveryCode(p["delivery"]),
                                                           FileStatus(p["status"])))
    if kind == "put_cancel":
        return M.ProxyCancelRequest()
    if kind == "closure":
        return M.ProxyClosureRequest(bool(p["closure"]))
    if kind == "txmode":
        return M.ProxyTransmissionMode(TransmissionMode(p["mode"]))
    if kind == "origid":
        return M.OriginatingTransactionId(TransactionId(bf(p["src"]), bf(p["seq"])))
    if kind == "listreq":
        return M.DirectoryListingRequest(M.DirectoryParams(CfdpLv(bytes(p["path"])), CfdpLv(bytes(p["name"]))))
    if kind == "listresp":
        return M.DirectoryListingResponse(bool(p["ok"]), M.DirectoryParams(CfdpLv(bytes(p["path"])), CfdpLv(bytes(p["name"]))))
    if kind == "listopts":
        return M.DirectoryListingParameters(M.DirListingOptions(bool(p["recursive"]), bool(p["all"])))
    raise ValueError(kind)


GETTERS = ["put_request", "put_response", "closure", "txmode", "origid", "listreq", "listresp", "listopts"]


def _scramble(x):
    """change every field of a returned parameter object in place (a later read must not be affected)"""
    import dataclasses
    from spacepackets.cfdp.lv import CfdpLv
    from spacepackets.util import UnsignedByteField
    objs = x if isinstance(x, tuple) else (x,)
    for o in objs:
        if dataclasses.is_dataclass(o) and not isinstance(o, type):
            for f in dataclasses.fields(o):
                v = getattr(o, f.name)
                try:
                    if isinstance(v, CfdpLv):
                        setattr(o, f.name, CfdpLv(b"zz" + bytes(v.value)[:3]))
                    elif isinstance(v, UnsignedByteField):
                        setattr(o, f.name, UnsignedByteField(0xEE, 1 if v.byte_len != 1 else 2))
                    elif isinstance(v, bool):
                        setattr(o, f.name, not v)
                except Exception:  # noqa
                    pass
        elif hasattr(o, "source_id") and hasattr(o, "seq_num"):          # TransactionId
            try:
                o.source_id = UnsignedByteField(0xEE, 1)
                o.seq_num = UnsignedByteField(0xEE, 1)
            except Exception:  # noqa
                pass


def read_params(r, kind, reread=True):
    """The parameters through the getter of `kind`, projected; None if the getter says 'not this kind'. With reread the
    getter is called once before, its result is changed in place, and the projection comes from a second call."""
    if reread:
        g = {"put_request": r.get_proxy_put_request_params, "put_response": r.get_proxy_put_response_params,
             "closure": r.get_proxy_closure_requested, "txmode": r.get_proxy_transmission_mode,
             "origid": r.get_originating_transaction_id, "listreq": r.get_dir_listing_request_params,
             "listresp": r.get_dir_listing_response_params, "listopts": r.get_dir_listing_options}[kind]
        first = g()
        if first is not None:
            from .probe import trash
            trash(first)                 # in place, through the objects themselves (byte fields, LVs, lists)
            _scramble(first)
    if kind == "put_request":
        x = r.get_proxy_put_request_params()
        return None if x is None else {"dest": octs(x.dest_entity_id.as_bytes), "src": octs(x.source_file_name.value),
                                       "dst": octs(x.dest_file_name.value)}
    if kind == "put_response":
        x = r.get_proxy_put_response_params()
        return None if x is None else {"cond": int(x.condition_code), "delivery": int(x.delivery_code),
                                       "status": int(x.file_status)}
    if kind == "closure":
        x = r.get_proxy_closure_requested()
        return None if x is None else {"closure": int(bool(x))}
    if kind == "txmode":
        x = r.get_proxy_transmission_mode()
        return None if x is None else {"mode": int(x)}
    if kind == "origid":
        x = r.get_originating_transaction_id()
        return None if x is None else {"src": octs(x.source_id.as_bytes), "seq": octs(x.seq_num.as_bytes)}
    if kind == "listreq":
        x = r.get_dir_listing_request_params()
        return None if x is None else {"path": octs(x.dir_path.value), "name": octs(x.dir_file_name.value)}
    if kind == "listresp":
        x = r.get_dir_listing_response_params()
        return None if x is None else {"ok": int(bool(x[0])), "path": octs(x[1].dir_path.value),
                                       "name": octs(x[1].dir_file_name.value)}
    if kind == "listopts":
        x = r.get_dir_listing_options()
        return None if x is None else {"recursive": int(bool(x.recursive)), "all": int(bool(x.all))}
    raise ValueError(kind)


def op_msg_rt(a):
    from spacepackets.cfdp.tlv import MessageToUserTlv, CfdpTlv, TlvHolder
    kind, p = a["kind"], a["p"]

    def run():
        m = mk_msg(kind, p)
        raw = owned(m.pack)
        plen = m.packet_len
        via = a.get("via", "unpack")
        if via == "unpack":
            g = MessageToUserTlv.unpack(bytes(raw) + b"\x02\x00")
        elif via == "from_tlv":
            g = MessageToUserTlv.from_tlv(CfdpTlv.unpack(bytes(raw)))
        else:
            g = TlvHolder(CfdpTlv.unpack(bytes(raw))).to_msg_to_user()
        res = bool(g.is_reserved_cfdp_message())
        r = g.to_reserved_msg_tlv()
        if r is None:
            return {"octets": octs(raw), "reserved": res, "to_reserved": "none"}
        if kind == "put_cancel":
            params = {"none": 0}
        else:
            params = read_params(r, kind)
        others = all(read_params(r, k) is None for k in GETTERS if k != kind)
        pt, dt = r.get_cfdp_proxy_message_type(), r.get_directory_operation_type()
        t = r.get_reserved_cfdp_message_type()
        typed = (pt is None or int(pt) == t) and (dt is None or int(dt) == t)
        return {"octets": octs(raw), "plen": plen, "t": int(m.tlv_type), "value": octs(g.value), "reserved": res,
                "mtype": int(t) if typed else -1, "proxy": bool(r.is_cfdp_proxy_operation()) and pt is not None,
                "dir": bool(r.is_directory_operation()) and dt is not None, "orig": bool(r.is_originating_transaction_id()),
                "params": params if params is not None else {"getter": "none"}, "others": others,
                "generic": octs(r.to_generic_msg_to_user_tlv().pack())}
    return outcome(run)


def op_msg_isres(a):
    from spacepackets.cfdp.tlv import MessageToUserTlv
    return outcome(lambda: {"reserved": bool(MessageToUserTlv(bytes(a["v"])).is_reserved_cfdp_message())})


OPS = {"msg.rt": op_msg_rt, "msg.isres": op_msg_isres}
