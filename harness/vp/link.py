"""End-to-end session (Link.tla): sequence counter -> PusTc -> byte link with arbitrary fragmentation -> stream parser ->
PusTc.unpack -> service-1 reports -> byte link -> parser -> Service1Tm.unpack -> PusVerificator.  TLC explores every
interleaving of the six actions over the bounded configuration; every transition is executed on a world of real objects
(deepcopy per edge) and the whole projected state is compared."""
from __future__ import annotations

import copy
import json
from collections import deque

from .core import canon, short, shrink, outcome, octs
from .ops_ecss import tc_proj
from .ops_srv1 import proj_req

ABSENT = {"absent": True}


class World:
    def __init__(self, scripts):
        from spacepackets.seqcount import SeqCountProvider
        from spacepackets.ecss.pus_verificator import PusVerificator
        self.scripts = scripts
        self.prov = SeqCountProvider(14)
        self.ver = PusVerificator()
        self.sent = []
        self.upP, self.upQ = bytearray(), deque()
        self.brx, self.todo = [], []
        self.dnP, self.dnQ = bytearray(), deque()

    def apply(self, ev):
        from spacepackets.ecss.tc import PusTc
        from spacepackets.ccsds.spacepacket import parse_space_packets, PacketId, PacketType
        from spacepackets.ecss import pus_1_verification as s1
        from spacepackets.ecss.fields import PacketFieldEnum
        a = ev["a"]
        if a == "send_tc":
            i = ev["i"]
            tc = PusTc(service=17, subservice=i, apid=66, seq_count=self.prov.get_and_increment(), app_data=bytes([i]))
            self.ver.add_tc(tc)
            self.sent.append(tc)
            self.upP.extend(tc.pack())
        elif a == "up_feed":
            self.upQ.append(bytearray(self.upP[:ev["k"]]))
            del self.upP[:ev["k"]]
        elif a == "down_feed":
            self.dnQ.append(bytearray(self.dnP[:ev["k"]]))
            del self.dnP[:ev["k"]]
        elif a == "board_parse":
            for raw in parse_space_packets(self.upQ, [PacketId(PacketType.TC, True, 66)]):
                tc = PusTc.unpack(bytes(raw))
                self.brx.append(tc)
                for sub, k in self.scripts[len(self.brx) - 1]:
                    self.todo.append((tc, sub, k))
        elif a == "board_emit":
            tc, sub, k = self.todo.pop(0)
            stamp = bytes(7)
            fn = s1.FailureNotice(PacketFieldEnum(8, 3), b"\x01\x02")
            step = PacketFieldEnum(8, k)
            tm = {1: lambda: s1.create_acceptance_success_tm(5, tc, stamp),
                  2: lambda: s1.create_acceptance_failure_tm(5, tc, fn, stamp),
                  3: lambda: s1.create_start_success_tm(5, tc, stamp),
                  4: lambda: s1.create_start_failure_tm(5, tc, fn, stamp),
                  5: lambda: s1.create_step_success_tm(5, tc, step, stamp),
                  6: lambda: s1.create_step_failure_tm(5, tc, step, fn, stamp),
                  7: lambda: s1.create_completion_success_tm(5, tc, stamp),
                  8: lambda: s1.create_completion_failure_tm(5, tc, fn, stamp)}[sub]()
            self.dnP.extend(tm.pack())
        elif a == "ground_parse":
            for raw in parse_space_packets(self.dnQ, [PacketId(PacketType.TM, True, 5)]):
                self.ver.add_tm(s1.Service1Tm.unpack(bytes(raw), s1.UnpackParams(7, 1, 1)))
        else:
            raise ValueError(a)

    def project(self, n):
        from spacepackets.ecss.req_id import RequestId

        def par(tc):
            p = tc_proj(tc)
            return {"apid": p["h"]["apid"], "seq": p["h"]["count"], "ack": p["ack"], "service": p["service"],
                    "subservice": p["subservice"], "source": p["source"], "data": p["data"]}

        def st(s):
            return {"all": bool(s.all_verifs_recvd), "acc": int(s.accepted), "sta": int(s.started), "stp": int(s.step),
                    "steps": [int(x) for x in s.step_list], "cmp": int(s.completed)}
        tab = []
        d = self.ver.verif_dict
        for i in range(n):
            if i < len(self.sent):
                rid = RequestId.from_pus_tc(self.sent[i])
                tab.append(st(d[rid]) if rid in d else dict(ABSENT))
            else:
                tab.append(dict(ABSENT))
        if len(d) > len(self.sent):
            tab.append({"extra_keys": len(d) - len(self.sent)})
        return {"sent": [par(t) for t in self.sent], "upP": octs(self.upP), "upQ": [octs(c) for c in self.upQ],
                "brx": [par(t) for t in self.brx],
                "todo": [{"req": proj_req(RequestId.from_pus_tc(t)), "sub": s, "k": k} for t, s, k in self.todo],
                "dnP": octs(self.dnP), "dnQ": [octs(c) for c in self.dnQ], "tab": tab}


def first_diff_key(a, b):
    for k in a:
        if a[k] != b.get(k):
            return k
    return "?"


def run_stage(ctx, prefix="link"):
    """Model-check Link.tla and replay every transition on real objects; violations get fingerprints '<prefix>.*'."""
    edges, meta = {}, []

    def on_edge(e):
        edges.setdefault(canon(e["src"]), []).append(e)

    if ctx.thorough:
        consts = ("CONSTANT TCs = {1, 2, 3}\nCONSTANT Scripts <- ScriptsThorough\nCONSTANT Cuts = {5, 9}\nCONSTANT MaxChunks = 2\n"
                  "ACTION_CONSTRAINT Emit")
        n = 3
    else:
        consts = ("CONSTANT TCs = {1, 2}\nCONSTANT Scripts <- ScriptsQuick\nCONSTANT Cuts = {5, 9}\nCONSTANT MaxChunks = 2\n"
                  "ACTION_CONSTRAINT Emit")
        n = 2
    ctx.explore_graph("MC_Link", "MC_Link.cfg", "link", on_edge, on_meta=meta.append, consts=consts, workers=1, coverage=False,
                      timeout=3400)
    scripts = [[(int(s), int(k)) for s, k in scr] for scr in meta[0]["scripts"]]
    w0 = World(scripts)
    init = canon(w0.project(n))
    if init not in edges:
        ctx.violation(f"{prefix}.init/state/", f"end-to-end session: freshly constructed objects project to {short(w0.project(n), 600)}, "
                      "which is not the initial state of the specification",
                      {"kind": "link-path", "n": n, "scripts": scripts, "path": [], "expected": json.loads(sorted(edges)[0]) if edges else {}})
        return
    seen = {init}
    stack = [(init, w0, [])]
    cnt = 0
    acts = {}
    while stack:
        key, real, path = stack.pop()
        for e in edges.get(key, []):
            cnt += 1
            w = copy.deepcopy(real)
            ev = e["ev"]
            acts[ev["a"]] = acts.get(ev["a"], 0) + 1
            res = outcome(lambda: (w.apply(ev), w.project(n))[1])
            ctx.count(canon(["link", e["src"], ev]))
            if cnt % 2999 == 1:
                ctx.sample({"model": "Link", "call": ev, "post": shrink(e["dst"], 12)})
            if "exc" in res and set(res) == {"exc"}:
                clause = "exc:" + res["exc"]
            elif res != e["dst"]:
                clause = first_diff_key(e["dst"], res)
            else:
                clause = None
            if clause:
                ctx.violation(f"{prefix}.{ev['a']}/{clause}/",
                              f"end-to-end session, after {len(path)} steps, {short(ev)}: specification gives "
                              f"{short(shrink(e['dst'], 10), 500)}, real objects give {short(shrink(res, 10), 500)}",
                              {"kind": "link-path", "n": n, "scripts": scripts, "path": path + [ev], "expected": e["dst"]})
                continue
            dk = canon(e["dst"])
            if dk not in seen:
                seen.add(dk)
                stack.append((dk, w, path + [ev]))
    for a, k in acts.items():
        ctx.actions[f"MC_Link.{a}"] = k
    ctx.traces += cnt
    ctx.note(f"link: {cnt} transitions over {len(seen)} states of the end-to-end session replayed on real objects "
             f"(counter, PusTc, parser, service-1 reports, tracker)")


def replay(r):
    w = World([[tuple(x) for x in s] for s in r["scripts"]])
    for ev in r["path"]:
        w.apply(ev)
    got = w.project(r["n"])
    ok = got == r["expected"]
    return ok, (f"path {short(r['path'], 1500)}\n expected {short(shrink(r['expected'], 12), 900)}\n observed {short(shrink(got, 12), 900)}")
