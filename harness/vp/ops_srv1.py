"""Adapters for request IDs, service-1 verification reports and enumerated packet fields."""
from __future__ import annotations

from .core import outcome, octs, rxbuf, decoded, scramble, owned, enum_arg
from .probe import fresh
from .ops_ecss import tm_proj, mk_tc
from .probe import decode_other


def mk_req(r, via="ctor"):
    from spacepackets.ccsds.spacepacket import PacketId, PacketSeqCtrl, PacketType, SequenceFlags, SpacePacketHeader
    from spacepackets.ecss.req_id import RequestId
    if via == "sph":
        h = SpacePacketHeader(packet_type=PacketType(r["type"]), apid=r["apid"], seq_count=r["count"], data_len=77,
                              sec_header_flag=bool(r["shf"]), seq_flags=SequenceFlags(r["flags"]),
                              ccsds_version=r["ver"])
        return RequestId.from_sp_header(h)
    if via == "tc":
        assert (r["ver"], r["type"], r["shf"], r["flags"]) == (0, 1, 1, 3)
        return RequestId.from_pus_tc(mk_tc({"apid": r["apid"], "seq": r["count"], "ack": 15, "service": 17,
                                            "subservice": 1, "source": 0, "data": [1, 2]}))
    if via == "mutate":
        # a history: another ID whose views are used once (they may cache), then the public attributes are reassigned
        q = RequestId(PacketId(PacketType(1 - r["type"]), not bool(r["shf"]), (r["apid"] + 1) % 2048),
                      PacketSeqCtrl(SequenceFlags((r["flags"] + 1) % 4), (r["count"] + 1) % 16384), (r["ver"] + 1) % 8)
        q.as_u32(), hash(q), q == q, q.pack()
        q.tc_packet_id = PacketId(PacketType(r["type"]), bool(r["shf"]), r["apid"])
        q.tc_psc = PacketSeqCtrl(SequenceFlags(r["flags"]), r["count"])
        q.ccsds_version = r["ver"]
        return q
    return RequestId(PacketId(PacketType(r["type"]), bool(r["shf"]), r["apid"]),
                     PacketSeqCtrl(SequenceFlags(r["flags"]), r["count"]), r["ver"])


def proj_req(q):
    return {"ver": int(q.ccsds_version), "type": int(q.tc_packet_id.ptype), "shf": int(bool(q.tc_packet_id.sec_header_flag)),
            "apid": int(q.tc_packet_id.apid), "flags": int(q.tc_psc.seq_flags), "count": int(q.tc_psc.seq_count)}


def _u32(x):
    return list(int(x).to_bytes(4, "big"))


def op_reqid_rt(a):
    from spacepackets.ecss.req_id import RequestId

    def run():
        q = mk_req(a["r"], a.get("via", "ctor"))
        raw = owned(q.pack)
        d = fresh(lambda: RequestId.unpack(rxbuf(raw, a["sfx"])))
        scramble()
        return {"octets": octs(raw), "u32": _u32(q.as_u32()), "dec": proj_req(d), "du32": _u32(d.as_u32()),
                "eq": bool(d == q) and bool(q == d), "hashok": hash(d) == hash(q), "repack": octs(d.pack())}
    return outcome(run)


_UP = {}


def unpack_params(ts, sw, ew):
    """The decoder parameters as an application keeps them: ONE UnpackParams object per (time stamp length, step width,
    error-code width), re-used for every report decoded with those widths. A decode must not change its argument: the
    object is checked before it is handed out again."""
    from spacepackets.ecss import pus_1_verification as S
    key = (ts, sw, ew)
    up = _UP.get(key)
    if up is None:
        up = _UP[key] = S.UnpackParams(ts, sw, ew)
    elif (up.timestamp_len, up.bytes_step_id, up.bytes_err_code) != key:
        seen = (up.timestamp_len, up.bytes_step_id, up.bytes_err_code)
        del _UP[key]
        raise AssertionError(f"an earlier decode changed the caller's UnpackParams {key} to {seen}")
    return up


def op_reqid_unpack(a):
    from spacepackets.ecss.req_id import RequestId

    def run():
        d = decoded(lambda: fresh(lambda: RequestId.unpack(bytes(a["octets"]))))
        return {"r": proj_req(d), "repack": octs(d.pack()), "u32": _u32(d.as_u32())}
    return outcome(run)


def op_reqid_eq(a):
    def run():
        q1, q2 = mk_req(a["r1"]), mk_req(a["r2"])
        eq = bool(q1 == q2)
        return {"eq": eq, "hashok": (hash(q1) == hash(q2)) if eq else True}
    return outcome(run)


def _i(v):
    return int.from_bytes(bytes(v), "big")


def mk_enum(w, v):
    from spacepackets.ecss.fields import PacketFieldEnum
    val = _i(v)
    if w in (1, 2, 4) and (val + w) % 2:
        # the width-specific convenience classes (PacketFieldU8 / U16 / U32) are the same kind of field
        from spacepackets.ecss.fields import PacketFieldU8, PacketFieldU16, PacketFieldU32
        return {1: PacketFieldU8, 2: PacketFieldU16, 4: PacketFieldU32}[w](val)
    return PacketFieldEnum(w * 8, val)


def proj_enum(e, key="v"):
    n = e.len()
    return {"w": n, key: list(int(e.val).to_bytes(n, "big"))}


def mk_fail(f):
    from spacepackets.ecss.pus_1_verification import FailureNotice
    return FailureNotice(mk_enum(f["w"], f["code"]), bytes(f["data"]))


def proj_fail(f):
    d = proj_enum(f.code, "code")
    d["data"] = octs(f.data)
    return d


def mk_srv1(a):
    from spacepackets.ecss import pus_1_verification as S
    from spacepackets.ecss.tm import PusTm
    p = a["p"]
    via = a.get("via", "ctor")
    step = mk_enum(p["step"][0]["w"], p["step"][0]["v"]) if p["step"] else None
    fail = mk_fail(p["fail"][0]) if p["fail"] else None
    stamp = bytes(p["stamp"])
    if via == "create":
        tc = mk_tc(a["tc"][0])
        # a request ID was obtained for this telecommand before (e.g. to register it) and that OBJECT was then given other
        # contents through its public attributes; reports built for the telecommand carry the telecommand's ID regardless
        try:
            from spacepackets.ecss.req_id import RequestId
            from spacepackets.ccsds.spacepacket import PacketSeqCtrl, SequenceFlags
            r0 = RequestId.from_pus_tc(tc)
            r0.tc_psc = PacketSeqCtrl(SequenceFlags.FIRST_SEGMENT, (tc.seq_count + 1) % 16384)
            r0.ccsds_version = 5
        except Exception:  # noqa
            pass
        sub = p["sub"]
        assert (p["seq"], p["ver"], p["timeref"], p["dest"]) == (0, 0, 0, 0)
        if sub == 1:
            return S.create_acceptance_success_tm(p["apid"], tc, stamp)
        if sub == 2:
            return S.create_acceptance_failure_tm(p["apid"], tc, fail, stamp)
        if sub == 3:
            return S.create_start_success_tm(p["apid"], tc, stamp)
        if sub == 4:
            return S.create_start_failure_tm(p["apid"], tc, fail, stamp)
        if sub == 5:
            return S.create_step_success_tm(p["apid"], tc, step, stamp)
        if sub == 6:
            return S.create_step_failure_tm(p["apid"], tc, step, fail, stamp)
        if sub == 7:
            return S.create_completion_success_tm(p["apid"], tc, stamp)
        return S.create_completion_failure_tm(p["apid"], tc, fail, stamp)
    vp = S.VerificationParams(mk_req(p["req"]), step, fail)
    return S.Service1Tm(apid=p["apid"], subservice=enum_arg(S.Subservice, p["sub"], p["apid"], p["seq"]), timestamp=stamp, verif_params=vp,
                        seq_count=p["seq"], packet_version=p["ver"], space_time_ref=p["timeref"],
                        destination_id=p["dest"])


def proj_srv1(d):
    return {"tm": tm_proj(d.pus_tm), "req": proj_req(d.tc_req_id),
            "step": [] if d.step_id is None else [proj_enum(d.step_id)],
            "fail": [] if d.failure_notice is None else [proj_fail(d.failure_notice)]}


def _widths(p):
    return (p["step"][0]["w"] if p["step"] else 1, p["fail"][0]["w"] if p["fail"] else 1)


def op_srv1_rt(a):
    from spacepackets.ecss import pus_1_verification as S
    from spacepackets.ecss.tm import PusTm

    def run():
        o = mk_srv1(a)
        raw = owned(o.pack)
        p = a["p"]
        sw, ew = _widths(p)
        private = len(raw) % 2 == 1
        up = S.UnpackParams(len(p["stamp"]), sw, ew) if private else unpack_params(len(p["stamp"]), sw, ew)
        buf = rxbuf(raw, a["sfx"])
        if a.get("via") == "from_tm":
            d = fresh(lambda: S.Service1Tm.from_tm(PusTm.unpack(buf, len(p["stamp"])), up))
        else:
            d = fresh(lambda: S.Service1Tm.unpack(buf, up))
        if private:
            # the caller re-uses ITS parameter record for the next stream with other widths: what was decoded stays decoded
            up.bytes_step_id, up.bytes_err_code = (8 if sw != 8 else 1), (8 if ew != 8 else 2)
            up.timestamp_len = (up.timestamp_len + 3) % 17
        decode_other("srv1", lambda b: S.Service1Tm.unpack(b, unpack_params(7, 1, 1)))
        ec = d.error_code
        if p["fail"] and (ec is None or proj_enum(ec, "code")["code"] != proj_fail(d.failure_notice)["code"]):
            return {"error_code_view": "inconsistent"}
        return {"octets": octs(raw), "plen": o.pus_tm.packet_len, "src": octs(o.source_data), "req": proj_req(o.tc_req_id),
                "reqoct": octs(o.tc_req_id.pack()), "dec": proj_srv1(d), "eq": bool(d == o) and bool(o == d),
                "repack": octs(d.pack())}
    return outcome(run)


def op_srv1_unpack(a):
    from spacepackets.ecss import pus_1_verification as S

    def run():
        d = decoded(lambda: fresh(lambda: S.Service1Tm.unpack(bytes(a["octets"]), unpack_params(a["tslen"], a["stepw"], a["errw"]))))
        return {"v": proj_srv1(d), "repack": octs(d.pack())}
    return outcome(run)


def op_pfe_rt(a):
    from spacepackets.ecss.fields import PacketFieldEnum

    def run():
        e = PacketFieldEnum(a["pfc"], _i(a["v"]))
        raw = owned(e.pack)
        d = PacketFieldEnum.unpack(bytes(raw), a["pfc"])
        return {"octets": octs(raw), "len": e.len(), "dec": list(int(d.val).to_bytes(d.len(), "big")), "eq": bool(d == e)}
    return outcome(run)


def op_pfe_unpack(a):
    from spacepackets.ecss.fields import PacketFieldEnum

    def run():
        d = PacketFieldEnum.unpack(bytes(a["octets"]), a["pfc"])
        return {"v": list(int(d.val).to_bytes(d.len(), "big"))}
    return outcome(run)


def op_fn_unpack(a):
    from spacepackets.ecss.pus_1_verification import FailureNotice

    def run():
        d = FailureNotice.unpack(bytes(a["octets"]), a["errw"])
        p = proj_fail(d)
        return {"code": p["code"], "data": p["data"], "len": d.len()}
    return outcome(run)


OPS = {"reqid.rt": op_reqid_rt, "reqid.unpack": op_reqid_unpack, "reqid.eq": op_reqid_eq, "srv1.rt": op_srv1_rt,
       "srv1.unpack": op_srv1_unpack, "pfe.rt": op_pfe_rt, "pfe.unpack": op_pfe_unpack, "fn.unpack": op_fn_unpack}
