"""Aliasing probes. A decoder (or constructor) that hands out shared mutable state - a default-argument object, a cached
header, a class attribute - is only visible in a HISTORY: decode unit 1 and keep the result, decode a different unit 2, look
at result 1 again. Every round-trip adapter therefore calls decode_other(...) between obtaining its decoded object and
projecting it. The second unit differs from typical first units in every header field (widths, flags, IDs, lengths)."""
from __future__ import annotations

_CACHE = {}


def _other_pdu_raw(kind):
    from .ops_cfdp import mk_pdu
    cfg = {"crc": 1, "large": 1, "mode": 1, "segctrl": 1, "dir": 1, "src": [0xA1] * 8, "dst": [0xB2] * 8, "seq": [0xC3] * 4}
    p = {"eof": {"cond": 7, "checksum": [9, 9, 9, 9], "size": [1, 2, 3, 4, 5, 6, 7, 8], "fault": [[0x77] * 4]},
         "finished": {"cond": 7, "delivery": 1, "status": 3, "responses": [{"action": 2, "status": 3, "n1": [113], "n2": [114, 115],
                                                                           "msg": [33]}], "fault": [[0x77] * 2]},
         "ack": {"acked": 5, "cond": 7, "tstatus": 3},
         "metadata": {"closure": 1, "cktype": 15, "size": [1, 2, 3, 4, 5, 6, 7, 8], "srcname": [113, 113, 113], "dstname": [114],
                      "options": [{"t": 5, "v": [1, 2, 3, 4]}]},
         "nak": {"start": [0, 0, 0, 9], "end": [0, 0, 9, 9], "segs": [[[0, 0, 0, 1], [0, 0, 0, 2]], [[0, 0, 0, 3], [0, 0, 0, 4]]]},
         "prompt": {"resp": 1}, "keepalive": {"progress": [8, 7, 6, 5, 4, 3, 2, 1]},
         "filedata": {"offset": [8, 7, 6, 5, 4, 3, 2, 1], "data": [0xEE] * 11, "meta": [{"state": 2, "md": [0xDD] * 5}]}}[kind]
    return bytes(mk_pdu(kind, cfg, p)[0].pack())


def _raw(key):
    if key in _CACHE:
        return _CACHE[key]
    if key.startswith("pdu:"):
        r = _other_pdu_raw(key[4:])
    elif key == "cfdphdr":
        r = _other_pdu_raw("prompt")
    elif key == "tc":
        from .ops_ecss import mk_tc
        r = bytes(mk_tc({"apid": 0x7EE, "seq": 0x3EEE, "ack": 9, "service": 0xEE, "subservice": 0xDD, "source": 0xCCBB,
                         "data": [0xAA] * 9}).pack())
    elif key in ("tm", "srv17"):
        from .ops_ecss import mk_tm
        r = bytes(mk_tm({"ver": 0, "apid": 0x7EE, "seq": 0x3EEE, "service": 17, "subservice": 0xDD, "msgcnt": 0, "dest": 0xCCBB,
                         "timeref": 9, "stamp": [0x99] * 7, "data": [0xAA] * 9}, "srv17" if key == "srv17" else "tm").pack())
    elif key == "srv1":
        from .ops_srv1 import mk_srv1
        r = bytes(mk_srv1({"p": {"apid": 0x7EE, "seq": 0x3EEE, "ver": 0, "timeref": 9, "dest": 0xCCBB, "stamp": [0x99] * 7, "sub": 6,
                                 "req": {"ver": 0, "type": 1, "shf": 1, "apid": 0x6DD, "flags": 3, "count": 0x2DDD},
                                 "step": [{"w": 1, "v": [0xEE]}], "fail": [{"w": 1, "code": [0xDD], "data": [0xCC] * 3}]},
                           "via": "ctor"}).pack())
    elif key == "tlv":
        r = bytes([5, 4, 0xEE, 0xEE, 0xEE, 0xEE])
    elif key.startswith("ctlv:"):
        from .ops_cfdp import mk_ctlv
        p = {"entity": {"v": [0xEE] * 8}, "flow": {"v": [0xEE] * 5}, "msg": {"v": [0xEE] * 6}, "fault": {"cond": 15, "handler": 4},
             "fsreq": {"action": 4, "n1": [113, 113], "n2": [114]}, "fsresp": {"action": 4, "status": 3, "n1": [113, 113], "n2": [114],
                                                                             "msg": [33, 33]}}[key[5:]]
        r = bytes(mk_ctlv(key[5:], p).pack())
    elif key in ("uslp.hdr:0", "uslp.hdr:1"):
        from .ops_uslp import mk_hdr
        h = {"scid": 0xEEEE, "srcdst": 1, "vcid": 0x2E, "map": 0xE, "trunc": int(key[-1]), "flen": 0xEEEE, "bypass": 1, "pcc": 1, "ocf": 1,
             "vcflen": 5, "vcf": [0xE1, 0xE2, 0xE3, 0xE4, 0xE5]}
        r = bytes(mk_hdr(h).pack())
    else:
        raise KeyError(key)
    _CACHE[key] = r
    return r


def decode_other(key, fn):
    """Decode the canned other unit for `key` with the decoder fn (exceptions from the probe itself are ignored).
    Before that the receive buffers handed to decoders so far are overwritten in place (core.scramble): the decoded object
    under test must own what it shows."""
    from .core import scramble
    scramble()
    try:
        fn(_raw(key))
    except Exception:  # noqa
        pass


def poison(kind):
    """Failed-call probe: before the operation under test, a call of the same family is made that must FAIL half-way
    (an out-of-range field discovered while packing). Whatever it leaves behind - a shared checksum register, a half
    updated cache - must not influence the following, valid call. Exceptions of the probe itself are ignored."""
    try:
        if kind == "tc":
            from spacepackets.ecss.tc import PusTc
            t = PusTc(service=17, subservice=1, apid=0x55, seq_count=0x155, app_data=b"\xAA\x55", source_id=0)
            t.pus_tc_sec_header.source_id = 0x10000        # does not fit 16 bits: pack / calc_crc fail after the header
            for f in (t.calc_crc, t.to_space_packet, t.pack):
                try:
                    f()
                except Exception:  # noqa
                    pass
        elif kind == "tm":
            from spacepackets.ecss.tm import PusTm
            t = PusTm(service=17, subservice=2, timestamp=bytes(7), source_data=b"\xAA\x55", apid=0x55, seq_count=0x155)
            t.pus_tm_sec_header.dest_id = 0x10000
            for f in (t.calc_crc, t.to_space_packet, t.pack):
                try:
                    f()
                except Exception:  # noqa
                    pass
        elif kind == "pdu":
            from .ops_cfdp import mk_pdu
            cfg = {"crc": 1, "large": 0, "mode": 0, "segctrl": 0, "dir": 0, "src": [1], "dst": [2], "seq": [3]}
            for k, p in (("eof", {"cond": 0, "checksum": [1, 2, 3, 4], "size": [1, 0, 0, 0, 0], "fault": []}),
                         ("keepalive", {"progress": [1, 0, 0, 0, 0]}),
                         ("nak", {"start": [0], "end": [1, 0, 0, 0, 0], "segs": []})):
                try:
                    mk_pdu(k, cfg, p)[0].pack()
                except Exception:  # noqa
                    pass
    except Exception:  # noqa
        pass


def twin(build, mutate):
    """Twin probe: an object is built from the very same arguments as the object under test and then changed in place
    (setters / attributes). The object under test is built afterwards; it must neither be the twin nor share mutable state
    with it (memoised constructors, class-level or default-argument objects). Exceptions of the probe are ignored."""
    try:
        t = build()
        mutate(t)
    except Exception:  # noqa
        pass


# ---------------------------------------------------------------------------------------------------------------------
# "decode twice" probe: what a decoder returns must be NEW objects.  The first result of the decode is trashed - every
# mutable thing reachable from it is changed in place through public attributes (byte fields re-valued, lists grown,
# bytearrays overwritten, integer / enum / boolean attributes of library objects flipped) - and the same input is decoded
# again; the second result is the one the adapter projects.  A decoder that memoises its results, or parts of them (an
# lru_cache on a helper that builds a PacketId / a byte field / a TLV), hands the trashed object out again.
# ---------------------------------------------------------------------------------------------------------------------
def _is_lib(o):
    return type(o).__module__.startswith("spacepackets")


def trash(obj, depth=0, seen=None):
    import enum
    seen = set() if seen is None else seen
    if id(obj) in seen or depth > 6:
        return
    seen.add(id(obj))
    if isinstance(obj, bytearray):
        for i in range(len(obj)):
            obj[i] ^= 0xFF
        return
    if isinstance(obj, list):
        for x in list(obj):
            trash(x, depth + 1, seen)
        try:
            obj.append(obj[0] if obj else 0)
        except Exception:  # noqa
            pass
        return
    if isinstance(obj, dict):
        for x in list(obj.values()):
            trash(x, depth + 1, seen)
        return
    if isinstance(obj, (tuple, bytes, str, int, float, bool, type(None), enum.Enum)) or not _is_lib(obj):
        return
    names = list(getattr(obj, "__dict__", {}).keys())
    for n in names:
        try:
            v = obj.__dict__[n]
        except Exception:  # noqa
            continue
        try:
            if isinstance(v, enum.Enum):
                others = [m for m in type(v) if m is not v]
                if others:
                    obj.__dict__[n] = others[0]
            elif isinstance(v, bool):
                obj.__dict__[n] = not v
            elif isinstance(v, int):
                obj.__dict__[n] = v ^ 1
            elif isinstance(v, bytes) and v:
                obj.__dict__[n] = bytes(x ^ 0xFF for x in v)
            elif isinstance(v, str):
                obj.__dict__[n] = v + "~"
            else:
                trash(v, depth + 1, seen)
        except Exception:  # noqa
            pass


def fresh(decode):
    """decode() -> trash the result -> decode() again; returns the second result (exceptions of the first run propagate as
    they would have anyway)."""
    first = decode()
    try:
        trash(first)
    except Exception:  # noqa
        pass
    return decode()
