"""Extra: the whole recorded trace of the repository's own tests validated at once (each listed property validates its own
part as a stage of its check).  usage: bin/extra repotests"""
from __future__ import annotations

import sys

from .core import Ctx
from . import repotests


def run():
    ctx = Ctx("X02", "quick", 1, "model_checking")
    tr = repotests.record(ctx)
    print("pytest:", tr["pytest_tail"], "dropped:", tr["stats"].get("stats"))
    evs = [{"op": e["op"], "a": e["a"], "o": e["o"], "test": e["test"]} for e in tr["codec"]]
    ctx.validate_events(iter(evs), "repo-tests", lambda e: e["test"].split("::")[-1][:50], shard=150)
    bad = ctx.validate_trace("Trace_SpParser", repotests.parser_histories(ctx), "repo-parser")
    for i, clause in sorted(bad.items()):
        ctx.violation(f"repo-parser/{clause}", f"parser call of a repository test rejected: {clause} {ctx.trace_history(i)[-1]}", {"kind": "x"})
    bad = ctx.validate_trace("Trace_SeqCount", repotests.counter_histories(ctx), "repo-counter")
    for i, clause in sorted(bad.items()):
        ctx.violation(f"repo-counter/{clause}", f"counter call of a repository test rejected: {clause} {ctx.trace_history(i)}", {"kind": "x"})
    bad = ctx.validate_trace("Trace_Verificator", repotests.tracker_histories(ctx), "repo-tracker")
    for i, clause in sorted(bad.items()):
        ctx.violation(f"repo-tracker/{clause}", f"tracker call of a repository test rejected: {clause} {ctx.trace_history(i)[-3:]}", {"kind": "x"})
    return ctx.finish()


if __name__ == "__main__":
    sys.exit(run())
