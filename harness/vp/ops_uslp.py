"""Adapters for USLP primary headers, truncated headers and transfer frames."""
from __future__ import annotations

from .core import outcome, octs, after_pack, rxbuf, decoded, scramble, owned, enum_arg
from .probe import fresh
from .probe import decode_other


def mk_hdr(h):
    from spacepackets.uslp.header import (PrimaryHeader, TruncatedPrimaryHeader, SourceOrDestField,
                                          BypassSequenceControlFlag, ProtocolCommandFlag)
    K = (h["scid"], h["vcid"], h["map"])
    if h["trunc"]:
        return TruncatedPrimaryHeader(h["scid"], enum_arg(SourceOrDestField, h["srcdst"], K), h["vcid"], h["map"])
    vcf = int.from_bytes(bytes(h["vcf"]), "big") if h["vcflen"] else None
    return PrimaryHeader(h["scid"], enum_arg(SourceOrDestField, h["srcdst"], K), h["vcid"], h["map"], h["flen"],
                         enum_arg(BypassSequenceControlFlag, h["bypass"], K), enum_arg(ProtocolCommandFlag, h["pcc"], K), bool(h["ocf"]),
                         h["vcflen"], vcf)


def proj_hdr(o):
    base = {"scid": int(o.scid), "srcdst": int(o.src_dest), "vcid": int(o.vcid), "map": int(o.map_id)}
    if o.truncated():
        base.update({"trunc": 1, "flen": 0, "bypass": 0, "pcc": 0, "ocf": 0, "vcflen": 0, "vcf": []})
    else:
        n = int(o.vcf_count_len)
        base.update({"trunc": 0, "flen": int(o.frame_len), "bypass": int(o.bypass_seq_ctrl_flag),
                     "pcc": int(o.prot_ctrl_cmd_flag), "ocf": int(bool(o.op_ctrl_flag)), "vcflen": n,
                     "vcf": list(int(o.vcf_count).to_bytes(n, "big")) if n else []})
    return base


def _hdr_cls(trunc):
    from spacepackets.uslp.header import PrimaryHeader, TruncatedPrimaryHeader
    return TruncatedPrimaryHeader if trunc else PrimaryHeader


def op_hdr_rt(a):
    from spacepackets.uslp.header import determine_header_type, HeaderType
    h = a["h"]

    def run():
        from .probe import twin

        def _mut(t):
            t.pack()
            t.scid, t.vcid, t.map_id = (t.scid + 1) % 65536, (t.vcid + 1) % 64, (t.map_id + 1) % 16
            if not t.truncated():
                t.frame_len, t.vcf_count_len, t.vcf_count = (t.frame_len + 1) % 65536, 1, 7
        twin(lambda: mk_hdr(h), _mut)
        o = mk_hdr(h)
        raw = owned(o.pack)

        def rest():
            d = fresh(lambda: _hdr_cls(h["trunc"]).unpack(rxbuf(raw, a["sfx"])))
            decode_other(f"uslp.hdr:{int(bool(h['trunc']))}", _hdr_cls(h["trunc"]).unpack)
            return {"octets": octs(raw), "len": o.len(), "dec": proj_hdr(d), "dlen": d.len(), "repack": octs(d.pack()),
                    "htype": int(determine_header_type(bytes(raw)) == HeaderType.TRUNCATED)}
        return after_pack(raw, rest)
    return outcome(run)


def op_hdr_unpack(a):
    def run():
        d = decoded(lambda: fresh(lambda: _hdr_cls(a["trunc"]).unpack(bytes(a["octets"]))))
        return {"h": proj_hdr(d), "len": d.len(), "repack": octs(d.pack())}
    return outcome(run)


def op_htype(a):
    from spacepackets.uslp.header import determine_header_type, HeaderType
    return outcome(lambda: {"trunc": int(determine_header_type(bytes(a["octets"])) == HeaderType.TRUNCATED)})


def _ftype(t):
    from spacepackets.uslp.frame import FrameType
    return FrameType.FIXED if t == "fixed" else FrameType.VARIABLE


_PROPS = {}


def mk_props(mp):
    """The managed parameters.  Half of the time they are a fresh record; the other half ONE long-lived record per frame type
    is re-configured through its public attributes (an application that switches channel configurations does that) - the
    decoder must go by what the record says now."""
    from spacepackets.uslp.frame import FixedFrameProperties, VarFrameProperties
    iz = mp["iz"][0] if mp["iz"] else None
    fe = mp["fecf"][0] if mp["fecf"] else None
    fixed = mp["ftype"] == "fixed"
    # an ABSENT zone may still carry a size in the record (a channel whose FECF was switched off): present=False decides
    salt = (mp["fixedlen"] if fixed else mp["trunclen"]) + (iz or 0) + (fe or 0)
    iz_size = iz if iz is not None else (4 if salt % 3 == 1 else None)
    fe_size = fe if fe is not None else (2 if salt % 3 == 2 else None)
    if ((iz or 0) + (fe or 0) + (mp["fixedlen"] if fixed else mp["trunclen"])) % 2 and mp["ftype"] in _PROPS:
        pr = _PROPS[mp["ftype"]]
        pr.insert_zone_properties.present, pr.insert_zone_properties.size = iz is not None, iz_size
        pr.fecf_properties.present, pr.fecf_properties.size = fe is not None, fe_size
        if fixed:
            pr.fixed_len = mp["fixedlen"]
        else:
            pr.truncated_frame_len = mp["trunclen"]
        return pr
    if fixed:
        pr = FixedFrameProperties(fixed_len=mp["fixedlen"], has_insert_zone=iz is not None, has_fecf=fe is not None,
                                  insert_zone_len=iz_size, fecf_len=fe_size)
    else:
        pr = VarFrameProperties(has_insert_zone=iz is not None, has_fecf=fe is not None, truncated_frame_len=mp["trunclen"],
                                insert_zone_len=iz_size, fecf_len=fe_size)
    _PROPS.setdefault(mp["ftype"], pr)
    return pr


def mk_frame(f):
    from spacepackets.uslp.frame import TransferFrame, TransferFrameDataField, TfdzConstructionRules, UslpProtocolIdentifier
    h = dict(f["hdr"])
    if not h["trunc"]:
        h["ocf"] = int(bool(f["ocf"]))
    try:
        upid = enum_arg(UslpProtocolIdentifier, f["upid"], len(f["tfdz"]))
    except ValueError:
        upid = f["upid"]
    tfdf = TransferFrameDataField(enum_arg(TfdzConstructionRules, f["rule"], len(f["tfdz"])), upid, bytes(f["tfdz"]),
                                  f["ptr"][0] if f["ptr"] else None)
    return TransferFrame(mk_hdr(h), tfdf, bytes(f["iz"][0]) if f["iz"] else None,
                         bytes(f["ocf"][0]) if f["ocf"] else None, bytes(f["fecf"][0]) if f["fecf"] else None)


def _opt(b):
    return [] if b is None else [octs(b)]


def proj_frame(fr):
    t = fr.tfdf
    return {"hdr": proj_hdr(fr.header), "iz": _opt(fr.insert_zone), "rule": int(t.tfdz_contr_rules), "upid": int(t.uslp_ident),
            "ptr": [] if t.fhp_or_lvop is None else [int(t.fhp_or_lvop)], "tfdz": octs(t.tfdz), "ocf": _opt(fr.op_ctrl_field),
            "fecf": _opt(fr.fecf)}


def matching(f, ftype, n):
    return {"ftype": ftype, "iz": [len(f["iz"][0])] if f["iz"] else [], "fecf": [len(f["fecf"][0])] if f["fecf"] else [],
            "trunclen": n if f["hdr"]["trunc"] else 0, "fixedlen": n if ftype == "fixed" else 0}


def op_frame_rt(a):
    from spacepackets.uslp.frame import TransferFrame
    f = a["f"]

    def run():
        fr = mk_frame(f)
        fr.set_frame_len_in_header()
        tr = bool(f["hdr"]["trunc"])
        raw = owned(lambda: fr.pack(truncated=tr, frame_type=_ftype(a["ftype"])))
        n = fr.len()

        def rest():
            d = fresh(lambda: TransferFrame.unpack(rxbuf(raw), _ftype(a["ftype"]), mk_props(matching(f, a["ftype"], len(raw)))))
            scramble()          # the receive buffer is re-used: the decoded frame owns its zones
            return {"octets": octs(raw), "len": n, "flen": -1 if tr else int(fr.header.frame_len), "dec": proj_frame(d),
                    "dlen": d.len(), "repack": octs(d.pack(truncated=tr, frame_type=_ftype(a["ftype"])))}
        return after_pack(raw, rest)
    return outcome(run)


def op_frame_unpack(a):
    from spacepackets.uslp.frame import TransferFrame

    def run():
        d = TransferFrame.unpack(bytes(a["octets"]), _ftype(a["mp"]["ftype"]), mk_props(a["mp"]))
        return {"f": proj_frame(d)}
    return outcome(run)


def op_tfdf_unpack(a):
    from spacepackets.uslp.frame import TransferFrameDataField

    def run():
        ft = None if a["ftype"] == "none" else _ftype(a["ftype"])
        d = TransferFrameDataField.unpack(bytes(a["octets"]), bool(a["trunc"]), a["exact"], ft)
        return {"rule": int(d.tfdz_contr_rules), "upid": int(d.uslp_ident), "tfdz": octs(d.tfdz)}
    return outcome(run)


OPS = {"uslp.hdr.rt": op_hdr_rt, "uslp.hdr.unpack": op_hdr_unpack, "uslp.htype": op_htype, "uslp.frame.rt": op_frame_rt,
       "uslp.frame.unpack": op_frame_unpack, "uslp.tfdf.unpack": op_tfdf_unpack}
