"""Trace validation of the repository's own test-suite.

The 304 tests are run once (in a subprocess, from the tree under test) with the recording plugin vp/repotrace.py; every
encode / decode call they make, every stream-parser call and every counter call is logged at its return and judged by TLC
against the specification - the tests pick the calls and the histories, the specification replaces their assertions.
Each property validates the part of the trace that belongs to it as one more stage of its check."""
from __future__ import annotations

import json
import os
import subprocess
import sys

from .core import MachineryError, short, canon

_CACHE = {}

# which recorded calls belong to which property
SELECT = {
    "C01": lambda e: e["op"] == "sph.unpack" or _pack(e, "sph"),
    "C02": lambda e: e["op"] == "tc.unpack" or _pack(e, "tc"),
    "C03": lambda e: e["op"] == "tm.unpack" or _pack(e, "tm"),
    "C05": lambda e: e["op"] == "cfdphdr.unpack" or _pack(e, "cfdphdr"),
    "C06": lambda e: (e["op"] == "pdu.unpack" and e["a"]["want"] not in ("filedata",)) or (_pack(e, "pdu") and e["a"]["v"]["kind"] != "filedata"),
    "C07": lambda e: (e["op"] == "pdu.unpack" and e["a"]["want"] in ("filedata", "any")) or (_pack(e, "pdu") and e["a"]["v"]["kind"] == "filedata"),
    "C08": lambda e: e["op"] in ("lv.unpack", "tlv.unpack", "ctlv.unpack") or _pack(e, "lv") or _pack(e, "tlv"),
    "C12": lambda e: e["op"] == "pdu.unpack" and e["a"]["want"] == "any",
    "C14": lambda e: e["op"] == "cds.unpack" or _pack(e, "cds"),
    "C15": lambda e: e["op"] in ("reqid.unpack", "srv1.unpack") or _pack(e, "reqid"),
    "C17": lambda e: e["op"] == "uslp.hdr.unpack" or _pack(e, "uslphdr"),
}


def _pack(e, cls):
    return e["op"] == "obs.pack" and e["a"]["cls"] == cls


def record(ctx):
    """Run the repository's tests with the recorder; -> {"codec": [...], "parser": [...], "counter": [...], "stats": {...}}"""
    repo = os.path.abspath(os.environ.get("VERIF_REPO", "/repo"))
    if repo in _CACHE:
        return _CACHE[repo]
    wd = ctx.workdir("repo-tests")
    out = os.path.join(wd, "trace.ndjson")
    env = dict(os.environ)
    env.update({"VP_REPOTRACE_OUT": out, "PYTHONDONTWRITEBYTECODE": "1", "PYTHONHASHSEED": "0",
                "PYTHONPATH": os.path.dirname(os.path.dirname(os.path.abspath(__file__)))})
    cmd = [sys.executable, "-m", "pytest", "-q", "-p", "no:cacheprovider", "-p", "vp.repotrace", "--timeout=900"]
    r = subprocess.run(cmd, cwd=repo, env=env, capture_output=True, text=True, timeout=1800)
    if not os.path.exists(out):
        raise MachineryError(f"the repository's tests produced no trace (exit {r.returncode}): {r.stdout[-600:]} {r.stderr[-600:]}")
    res = {"codec": [], "parser": [], "counter": [], "tracker": [], "stats": {}}
    with open(out) as f:
        for ln in f:
            e = json.loads(ln)
            if e["stream"] == "stats":
                res["stats"] = e
            else:
                res[e["stream"]].append(e)
    res["pytest_exit"] = r.returncode
    res["pytest_tail"] = r.stdout.strip().splitlines()[-1:] if r.stdout.strip() else []
    _CACHE[repo] = res
    return res


def codec_stage(ctx, prop, minimum=1):
    """Validate the recorded encode / decode calls that belong to `prop` against the specification."""
    tr = record(ctx)
    sel = SELECT[prop]
    seen, evs = set(), []
    for e in tr["codec"]:
        if not sel(e):
            continue
        k = canon([e["op"], e["a"], e["o"]])
        if k in seen:
            continue
        seen.add(k)
        evs.append({"op": e["op"], "a": e["a"], "o": e["o"], "test": e["test"]})
    if len(evs) < minimum:
        raise MachineryError(f"repo-tests: only {len(evs)} recorded calls for {prop} (expected at least {minimum}): the recorder lost its grip")
    ctx.validate_events(iter(evs), "repo-tests", lambda e: "repo-test=" + e.get("test", "?").split("::")[-1][:40], shard=400)
    ctx.note(f"repo-tests: {len(evs)} distinct calls made by the repository's own tests ({tr['pytest_tail']}) validated")
    ctx.extra["repo_tests"] = {"pytest": tr["pytest_tail"], "calls": len(evs), "dropped": tr["stats"].get("stats", {})}


def parser_histories(ctx):
    tr = record(ctx)
    for e in tr["parser"]:
        if "out" not in e["ret"]:
            continue
        yield {"op": "init", "ids": e["pre"]["ids"], "clean": False, "test": e["test"]}
        for c in e["pre"]["chunks"]:
            yield {"op": "feed", "chunk": c}
        yield {"op": "parse", "out": e["ret"]["out"], "queue": e["queue"]}


def tracker_histories(ctx):
    tr = record(ctx)
    for h in tr["tracker"]:
        n = h["n"]
        yield {"op": "init", "n": n, "ret": "none", "tab": [{"absent": True}] * n, "test": h["test"]}
        for e in h["events"]:
            e = dict(e)
            e["tab"] = e["tab"] + [{"absent": True}] * (n - len(e["tab"]))
            yield e


def counter_histories(ctx):
    tr = record(ctx)
    for e in tr["counter"]:
        if e["w"] < 1 or e["w"] > 64:
            continue
        if e["op"] == "next_mem":
            yield {"op": "init", "w": e["w"], "file": {"m": True}, "test": e["test"]}
            yield {"op": "set_mem", "vd": e["mem"], "ret": "none", "file": {"m": True}}
            yield {"op": "next_mem", "ret": e["ret"], "file": {"m": True}}
        else:
            yield {"op": "init", "w": e["w"], "file": e["pre"], "test": e["test"]}
            yield {"op": e["op"], "ret": e["ret"], "file": e["file"]}


def reobserve(e):
    """Replay of a recorded test call: the test that made it is run again with the recorder and the call with the same
    arguments is looked up."""
    class C:
        def workdir(self, name):
            import tempfile
            return tempfile.mkdtemp(prefix="vp-" + name)
    _CACHE.clear()
    tr = record(C())
    for x in tr["codec"]:
        if x["op"] == e["op"] and x["a"] == e["a"] and x.get("test") == e.get("test"):
            return x["o"]
    return None
