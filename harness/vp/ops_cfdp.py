"""Adapters for CFDP: header, LV/TLV, concrete TLVs, the eight PDU kinds, factory and holder.
build(abstract) -> library object; project(object) -> abstract record. Attribute reads only."""
from __future__ import annotations

import copy

from .core import outcome, octs, after_pack, rxbuf, decoded, scramble, owned, enum_arg, assign_grown, side_pack
from .probe import fresh
from .probe import decode_other, poison, twin

KIND_ORDER = ["eof", "finished", "ack", "metadata", "nak", "prompt", "keepalive", "filedata"]


def _i(v):
    return int.from_bytes(bytes(v), "big")


def _w(x, large):
    w = 8 if large else 4
    n = max(w, (int(x).bit_length() + 7) // 8)
    return list(int(x).to_bytes(n, "big"))


def bf(v):
    from spacepackets.util import UnsignedByteField
    return UnsignedByteField(_i(v), len(v))


def bf_inplace(v):
    """the field reaches its value by in-place assignment after its views were used once"""
    from spacepackets.util import UnsignedByteField
    w = len(v)
    f = UnsignedByteField((_i(v) + 1) % (1 << (8 * w)), w)
    f.as_bytes, int(f), f.hex_str
    if w and sum(v) % 3 == 1:
        # the value arrives as the leading octets of a longer buffer (the field takes its own width of it) ...
        f.value = bytes(v) + b"\xa5\x5a\xa5"
    elif w and sum(v) % 3 == 2:
        # ... or an assignment that is refused (one more than the field can hold) comes first: it leaves nothing behind
        f.value = _i(v)
        try:
            f.value = 1 << (8 * w)          # refused: the field keeps the value it had
        except ValueError:
            pass
    else:
        f.value = _i(v)
    return f


def pdu_eq(d, obj):
    """decoded == original and original == decoded.  A Finished PDU whose caller wrote 'no responses' as None keeps that None
    in the caller's FinishedParams object (FinishedPdu works on the caller's object and does not rewrite it), and the
    parameter records are compared as they are: the comparison is then made with an equal PDU built with the [] spelling."""
    o = obj
    if type(obj).__name__ == "FinishedPdu" and obj.file_store_responses is None:
        from spacepackets.cfdp.pdu import FinishedPdu
        from spacepackets.cfdp.pdu.finished import FinishedParams
        o = FinishedPdu(copy.copy(obj.pdu_header.pdu_conf),
                        FinishedParams(obj.condition_code, obj.delivery_code, obj.file_status, [], obj.fault_location))
    return bool(d == o) and bool(o == d)


def empty_arg(lst, *key):
    """An optional list argument that is empty, as a caller may write it: [] or None (both are accepted spellings of 'none')."""
    import zlib
    if lst:
        return lst
    return None if zlib.crc32(repr(key).encode()) % 2 else []


def reuse_conf(conf):
    """The caller goes on using ITS configuration object for the next transaction: flags flipped, sequence number advanced
    in place. What an object built from it packs afterwards must still be what that object's own getters report."""
    from spacepackets.cfdp.defs import CrcFlag, LargeFileFlag
    try:
        conf.crc_flag = CrcFlag(1 - int(conf.crc_flag))
        conf.file_flag = LargeFileFlag(1 - int(conf.file_flag))
        s = conf.transaction_seq_num
        if s.byte_len:
            s.value = (s.value + 1) % (1 << (8 * s.byte_len))
    except Exception:  # noqa
        pass


def mk_cfg(c, inplace=False):
    from spacepackets.cfdp.conf import PduConfig
    from spacepackets.cfdp.defs import (TransmissionMode, LargeFileFlag, CrcFlag, Direction, SegmentationControl)
    key = (tuple(c["src"]), tuple(c["seq"]), tuple(c["dst"]), c["mode"], c["large"], c["crc"], c["dir"], c["segctrl"])
    f = bf_inplace if inplace else bf
    return PduConfig(source_entity_id=f(c["src"]), dest_entity_id=f(c["dst"]), transaction_seq_num=f(c["seq"]),
                     trans_mode=enum_arg(TransmissionMode, c["mode"], key), file_flag=enum_arg(LargeFileFlag, c["large"], key),
                     crc_flag=enum_arg(CrcFlag, c["crc"], key), direction=enum_arg(Direction, c["dir"], key),
                     seg_ctrl=enum_arg(SegmentationControl, c["segctrl"], key))


def _bfv(f):
    """the octets of a byte field; if its integer view says something else (the views of a field are one value), both"""
    b = octs(f.as_bytes)
    try:
        if int(f.value) != int.from_bytes(bytes(b), "big") or int(f.byte_len) != len(b):
            return b + ["integer view", int(f.value), "width", int(f.byte_len)]
    except Exception:  # noqa
        pass
    return b


def proj_cfg(c):
    return {"crc": int(c.crc_flag), "large": int(c.file_flag), "mode": int(c.trans_mode), "segctrl": int(c.seg_ctrl),
            "dir": int(c.direction), "src": _bfv(c.source_entity_id), "dst": _bfv(c.dest_entity_id),
            "seq": _bfv(c.transaction_seq_num)}


def _name(v):
    return bytes(v).decode("utf-8")


def mk_fsresp(r):
    from spacepackets.cfdp.tlv import FileStoreResponseTlv
    from spacepackets.cfdp.tlv.defs import FilestoreActionCode, FilestoreResponseStatusCode
    from spacepackets.cfdp.lv import CfdpLv
    return FileStoreResponseTlv(action_code=FilestoreActionCode(r["action"]),
                                status_code=FilestoreResponseStatusCode(r["action"] << 4 | r["status"]),
                                first_file_name=_name(r["n1"]), second_file_name=_name(r["n2"]),
                                filestore_msg=CfdpLv(bytes(r["msg"])))


def proj_fsresp(t):
    return {"action": int(t.action_code), "status": int(t.status_code) & 0x0F, "n1": octs(t.first_file_name.encode()),
            "n2": octs(t.second_file_name.encode()), "msg": octs(t.filestore_msg.value)}


def mk_fsreq(r):
    from spacepackets.cfdp.tlv import FileStoreRequestTlv
    from spacepackets.cfdp.tlv.defs import FilestoreActionCode
    return FileStoreRequestTlv(FilestoreActionCode(r["action"]), _name(r["n1"]), _name(r["n2"]))


def proj_fsreq(t):
    return {"action": int(t.action_code), "n1": octs(t.first_file_name.encode()), "n2": octs(t.second_file_name.encode())}


def _entity(opt):
    from spacepackets.cfdp.tlv import EntityIdTlv
    return EntityIdTlv(bytes(opt[0])) if opt else None


def _proj_entity(t):
    return [] if t is None else [octs(t.value)]


def mk_pdu(kind, cfg, p):
    """Returns (object, caller's PduConfig, caller's parameter object or None, snapshot taken before construction)."""
    from spacepackets.cfdp import pdu as P
    from spacepackets.cfdp.defs import ConditionCode, DeliveryCode, FileStatus, ChecksumType
    from spacepackets.cfdp.tlv import CfdpTlv
    from spacepackets.cfdp.tlv.defs import TlvType
    conf = mk_cfg(cfg)
    params = None
    K = repr(sorted(p.items()))[:200]            # key for the spelling of enumerated arguments (enum_arg)
    if kind == "eof":
        params = _entity(p["fault"])
        ctor = lambda: P.EofPdu(conf, bytes(p["checksum"]), _i(p["size"]), params, enum_arg(ConditionCode, p["cond"], K))
    elif kind == "finished":
        from spacepackets.cfdp.pdu.finished import FinishedParams
        params = FinishedParams(enum_arg(ConditionCode, p["cond"], K), enum_arg(DeliveryCode, p["delivery"], K),
                                enum_arg(FileStatus, p["status"], K),
                                empty_arg([mk_fsresp(r) for r in p["responses"]], K, cfg["crc"]), _entity(p["fault"]))
        ctor = lambda: P.FinishedPdu(conf, params)
    elif kind == "ack":
        from spacepackets.cfdp.pdu.ack import TransactionStatus
        ctor = lambda: P.AckPdu(conf, enum_arg(P.DirectiveType, p["acked"], K), enum_arg(ConditionCode, p["cond"], K),
                                enum_arg(TransactionStatus, p["tstatus"], K))
    elif kind == "metadata":
        from spacepackets.cfdp.pdu.metadata import MetadataParams
        params = MetadataParams(bool(p["closure"]), enum_arg(ChecksumType, p["cktype"], K), _i(p["size"]),
                                _name(p["srcname"]) if p["srcname"] else None,
                                _name(p["dstname"]) if p["dstname"] else None)
        opts = [CfdpTlv(enum_arg(TlvType, o["t"], K), bytes(o["v"])) for o in p["options"]]
        ctor = lambda: P.MetadataPdu(conf, params, opts if opts else None)      # "no options" is None (the documented default)
    elif kind == "nak":
        params = [(_i(s), _i(e)) for s, e in p["segs"]]
        if params:
            ctor = lambda: P.NakPdu(conf, _i(p["start"]), _i(p["end"]), params)
        else:       # no segment requests: the optional argument is left out
            ctor = lambda: P.NakPdu(conf, _i(p["start"]), _i(p["end"]))
    elif kind == "prompt":
        from spacepackets.cfdp.pdu.prompt import ResponseRequired
        ctor = lambda: P.PromptPdu(conf, enum_arg(ResponseRequired, p["resp"], K))
    elif kind == "keepalive":
        ctor = lambda: P.KeepAlivePdu(conf, _i(p["progress"]))
    elif kind == "filedata":
        from spacepackets.cfdp.pdu.file_data import FileDataParams, SegmentMetadata, RecordContinuationState
        sm = None
        if p["meta"]:
            md = bytes(p["meta"][0]["md"])
            if (len(md) + len(p["data"])) % 2:
                # SegmentMetadata is a plain record: created with other content, then filled in (what it holds at pack() counts)
                sm = SegmentMetadata(enum_arg(RecordContinuationState, (p["meta"][0]["state"] + 1) % 4, K), b"\x00")
                sm.record_cont_state = enum_arg(RecordContinuationState, p["meta"][0]["state"], K)
                sm.metadata = md
            else:
                sm = SegmentMetadata(enum_arg(RecordContinuationState, p["meta"][0]["state"], K), md)
        params = FileDataParams(bytes(p["data"]), _i(p["offset"]), sm)
        ctor = lambda: P.FileDataPdu(conf, params)
    else:
        raise ValueError(kind)
    snap = _snapshot(conf, params)
    return ctor(), conf, params, snap


def mk_pdu_via_setters(kind, cfg, p):
    """The PDU reaches its parameter values through a HISTORY: constructed with other values for every field that has a
    documented setter, packed once, then brought to p with those setters. Must be indistinguishable from mk_pdu(kind, cfg, p)."""
    from spacepackets.cfdp.tlv import EntityIdTlv, CfdpTlv
    from spacepackets.cfdp.tlv.defs import TlvType
    import zlib
    q = copy.deepcopy(p)
    # which fields start with other values (and are therefore brought to p by their setter afterwards): all of them, or only
    # one group - a setter must do its work without help from a later setter
    sel = zlib.crc32(repr(sorted(p.items())).encode()) % 3
    decoded_first = (zlib.crc32(repr((kind, sorted(cfg.items()))).encode()) + sel) % 2 == 1
    touch = set()
    if kind in ("eof", "finished") and p["fault"] and (kind == "eof" or sel != 1):
        v = p["fault"][0]
        # the same entity number in another width (or another number)
        q["fault"] = [([0] + v) if len(v) in (1,) else (v[1:] if len(v) == 2 and v[0] == 0 else [(v[0] + 1) % 256] + v[1:])]
        touch.add("fault")
    if kind in ("eof", "finished") and not p["fault"]:
        touch.add("fault")
    if kind == "finished" and sel != 2:
        q["responses"] = p["responses"][:-1] if p["responses"] else [{"action": 5, "status": 0, "n1": [113], "n2": [], "msg": []}]
        touch.add("responses")
    if kind == "metadata":
        if sel != 1:
            q["srcname"], q["dstname"] = p["srcname"] + [120], ([121] + p["dstname"]) if len(p["dstname"]) < 200 else [121]
            touch.add("names")
        if sel != 2:
            q["options"] = p["options"][1:] if p["options"] else [{"t": 5, "v": [1]}]
            touch.add("options")
    if kind == "nak":
        q["segs"] = p["segs"][:-1] if p["segs"] else [[p["start"], p["end"]]]
        touch.add("segs")
    if kind == "filedata":
        if sel != 1:
            q["data"] = p["data"] + [85]
            touch.add("data")
        if sel != 2:
            # other metadata: absent <-> present, or present with another length
            q["meta"] = ([] if sel == 0 else [{"state": p["meta"][0]["state"], "md": p["meta"][0]["md"][:-1] if len(p["meta"][0]["md"]) > 40
                                              else p["meta"][0]["md"] + [9, 9]}]) if p["meta"] else [{"state": 1, "md": [9]}]
            touch.add("meta")
    flip_large = (kind == "filedata" and "data" in touch and len([x for x in p["offset"] if x]) <= 4
                  and (len(p["data"]) + cfg["large"]) % 2 == 0 and int.from_bytes(bytes(p["offset"]), "big") < 2 ** 32)
    if flip_large:
        # the PDU starts its life under the OTHER large-file setting; the flag is then switched through the public header setter
        # and the file data re-assigned (which re-computes the length): offset width and length follow the flag as it is now
        cfg0 = dict(cfg, large=1 - cfg["large"])
        obj, conf, params, snap = mk_pdu(kind, cfg0, q)
    else:
        obj, conf, params, snap = mk_pdu(kind, cfg, q)
    first = bytes(obj.pack())
    if flip_large:
        from spacepackets.cfdp.defs import LargeFileFlag
        obj.pdu_header.file_flag = LargeFileFlag(cfg["large"])
        decoded_first = False
    if decoded_first:
        # the object the setters are applied to was DECODED (e.g. a PDU that is forwarded with changes), not constructed
        obj = type(obj).unpack(first)
    if "fault" in touch:
        obj.fault_location = EntityIdTlv(bytes(p["fault"][0])) if p["fault"] else None
    if "responses" in touch:
        obj.file_store_responses = [mk_fsresp(r) for r in p["responses"]]
    if "names" in touch:
        obj.source_file_name = _name(p["srcname"]) if p["srcname"] else None
        obj.dest_file_name = _name(p["dstname"]) if p["dstname"] else None
    if "options" in touch:
        obj.options = [CfdpTlv(TlvType(o["t"]), bytes(o["v"])) for o in p["options"]] if p["options"] else None
    if "segs" in touch:
        obj.segment_requests = [(_i(s), _i(e)) for s, e in p["segs"]]
    if kind == "filedata":
        from spacepackets.cfdp.pdu.file_data import SegmentMetadata, RecordContinuationState
        if "data" in touch:
            assign_grown(obj, "file_data", p["data"])
        if "meta" in touch:
            obj.segment_metadata = (SegmentMetadata(RecordContinuationState(p["meta"][0]["state"]), bytes(p["meta"][0]["md"]))
                                    if p["meta"] else None)
    # the caller's objects were legitimately written through by the setters: compare from here on
    return obj, conf, params, _snapshot(conf, params)


def rebuild_pdu(kind, d):
    """A new PDU constructed from the attribute values of a DECODED one, exactly as the decoder left them (plain ints where
    it stores ints, enum members where it stores those): what an application does that forwards or answers a PDU."""
    from spacepackets.cfdp import pdu as P
    conf = copy.copy(d.pdu_header.pdu_conf)
    if kind == "eof":
        return P.EofPdu(conf, d.file_checksum, d.file_size, d.fault_location, d.condition_code)
    if kind == "finished":
        from spacepackets.cfdp.pdu.finished import FinishedParams
        return P.FinishedPdu(conf, FinishedParams(d.condition_code, d.delivery_code, d.file_status,
                                                  list(d.file_store_responses or []), d.fault_location))
    if kind == "ack":
        return P.AckPdu(conf, d.directive_code_of_acked_pdu, d.condition_code_of_acked_pdu, d.transaction_status)
    if kind == "metadata":
        from spacepackets.cfdp.pdu.metadata import MetadataParams
        return P.MetadataPdu(conf, MetadataParams(d.closure_requested, d.checksum_type, d.file_size, d.source_file_name,
                                                  d.dest_file_name), d.options)
    if kind == "nak":
        return P.NakPdu(conf, d.start_of_scope, d.end_of_scope, list(d.segment_requests))
    if kind == "prompt":
        return P.PromptPdu(conf, d.response_required)
    if kind == "keepalive":
        return P.KeepAlivePdu(conf, d.progress)
    if kind == "filedata":
        from spacepackets.cfdp.pdu.file_data import FileDataParams
        return P.FileDataPdu(conf, FileDataParams(d.file_data, d.offset, d.segment_metadata))
    raise ValueError(kind)


def kind_of(obj):
    from spacepackets.cfdp import pdu as P
    for k, c in (("eof", P.EofPdu), ("finished", P.FinishedPdu), ("ack", P.AckPdu), ("metadata", P.MetadataPdu),
                 ("nak", P.NakPdu), ("prompt", P.PromptPdu), ("keepalive", P.KeepAlivePdu), ("filedata", P.FileDataPdu)):
        if type(obj) is c:
            return k
    return "other:" + type(obj).__name__


def proj_pdu(obj):
    kind = kind_of(obj)
    cfg = proj_cfg(obj.pdu_header.pdu_conf)
    large = cfg["large"]
    if kind == "eof":
        p = {"cond": int(obj.condition_code), "checksum": octs(obj.file_checksum), "size": _w(obj.file_size, large),
             "fault": _proj_entity(obj.fault_location)}
    elif kind == "finished":
        p = {"cond": int(obj.condition_code), "delivery": int(obj.delivery_code), "status": int(obj.file_status),
             "responses": [proj_fsresp(r) for r in (obj.file_store_responses or [])],
             "fault": _proj_entity(obj.fault_location)}
    elif kind == "ack":
        p = {"acked": int(obj.directive_code_of_acked_pdu), "subtype": int(obj.directive_subtype_code),
             "cond": int(obj.condition_code_of_acked_pdu), "tstatus": int(obj.transaction_status)}
    elif kind == "metadata":
        sn, dn = obj.source_file_name, obj.dest_file_name
        p = {"closure": int(bool(obj.closure_requested)), "cktype": int(obj.checksum_type),
             "size": _w(obj.file_size, large), "srcname": octs(sn.encode()) if sn else [],
             "dstname": octs(dn.encode()) if dn else [],
             "options": [{"t": int(o.tlv_type), "v": octs(o.value)} for o in (obj.options or [])]}
    elif kind == "nak":
        p = {"start": _w(obj.start_of_scope, large), "end": _w(obj.end_of_scope, large),
             "segs": [[_w(s, large), _w(e, large)] for s, e in obj.segment_requests]}
    elif kind == "prompt":
        p = {"resp": int(obj.response_required)}
    elif kind == "keepalive":
        p = {"progress": _w(obj.progress, large)}
    elif kind == "filedata":
        sm = obj.segment_metadata
        p = {"meta": [] if sm is None else [{"state": int(sm.record_cont_state), "md": octs(sm.metadata)}],
             "offset": _w(obj.offset, large), "data": octs(obj.file_data)}
    else:
        p = {}
    return {"kind": kind, "cfg": cfg, "p": p}


KIND_NAMES = ("eof", "finished", "ack", "metadata", "nak", "prompt", "keepalive", "filedata")


def pdu_class(kind):
    from spacepackets.cfdp import pdu as P
    return {"eof": P.EofPdu, "finished": P.FinishedPdu, "ack": P.AckPdu, "metadata": P.MetadataPdu, "nak": P.NakPdu,
            "prompt": P.PromptPdu, "keepalive": P.KeepAlivePdu, "filedata": P.FileDataPdu}[kind]


def _snapshot(conf, params):
    s = {"cfg": proj_cfg(conf)}
    if params is not None:
        s["params"] = repr(params)
    return s


# ---------------------------------------------------------------------------------------
def op_cfdphdr_rt(a):
    from spacepackets.cfdp.pdu.header import PduHeader, AbstractPduBase
    from spacepackets.cfdp.defs import PduType, SegmentMetadataFlag
    h = a["h"]

    def run():
        conf = mk_cfg({"crc": h["crc"], "large": h["large"], "mode": h["mode"], "segctrl": h["segctrl"], "dir": h["dir"],
                       "src": h["src"], "dst": h["dst"], "seq": h["seq"]}, inplace=a.get("via") == "inplace")
        cfglen = conf.header_len()
        o = PduHeader(PduType(h["type"]), SegmentMetadataFlag(h["segmeta"]), h["dlen"], conf)
        # a sibling header of the peer direction built from ANOTHER configuration record that holds the same ID / sequence
        # number objects (an application keeps one object per entity); its IDs are then replaced through the documented
        # setter - replaced, not written into the objects the header under test still uses
        try:
            import copy as _c
            from spacepackets.cfdp.conf import PduConfig
            conf2 = PduConfig(source_entity_id=conf.source_entity_id, dest_entity_id=conf.dest_entity_id,
                              transaction_seq_num=conf.transaction_seq_num, trans_mode=conf.trans_mode, file_flag=conf.file_flag,
                              crc_flag=conf.crc_flag, direction=conf.direction, seg_ctrl=conf.seg_ctrl)
            sib = PduHeader(PduType(h["type"]), SegmentMetadataFlag(h["segmeta"]), h["dlen"], conf2)
            sib.pack()
            w = len(h["src"])
            sib.set_entity_ids(bf([(x + 17) % 256 for x in h["src"]]), bf([(x + 34) % 256 for x in h["dst"]]))
            sib.transaction_seq_num = bf([(x + 51) % 256 for x in h["seq"]])
            sib.pack()
        except Exception:  # noqa
            pass
        raw = owned(o.pack)

        def rest():
            d = fresh(lambda: PduHeader.unpack(rxbuf(raw, a["sfx"])))
            decode_other("cfdphdr", PduHeader.unpack)
            own = proj_hdr(o)
            out = {"octets": octs(raw), "hlen": o.header_len, "plen": o.packet_len, "cfglen": cfglen,
                   "rawlen": AbstractPduBase.header_len_from_raw(bytes(raw)), "dec": proj_hdr(d), "dhlen": d.header_len,
                   "repack": octs(d.pack())}
            if any(isinstance(x, str) for k in ("src", "dst", "seq") for x in own[k]):
                out["own_fields"] = {k: own[k] for k in ("src", "dst", "seq")}      # views of a field disagree
            reuse_conf(conf)
            side_pack("cfdphdr", proj_hdr, o)
            return out
        return after_pack(raw, rest)
    return outcome(run)


def proj_hdr(d):
    c = proj_cfg(d.pdu_conf)
    return {"type": int(d.pdu_type), "dir": c["dir"], "mode": c["mode"], "crc": c["crc"], "large": c["large"],
            "dlen": int(d.pdu_data_field_len), "segctrl": c["segctrl"], "segmeta": int(d.segment_metadata_flag),
            "src": c["src"], "seq": c["seq"], "dst": c["dst"]}


def op_cfdphdr_unpack(a):
    from spacepackets.cfdp.pdu.header import PduHeader

    def run():
        d = decoded(lambda: fresh(lambda: PduHeader.unpack(bytes(a["octets"]))))
        return {"h": proj_hdr(d), "hlen": d.header_len, "repack": octs(d.pack())}
    return outcome(run)


def op_lv_rt(a):
    from spacepackets.cfdp.lv import CfdpLv

    def run():
        o = CfdpLv(bytes(a["v"]))
        raw = owned(o.pack)

        def rest():
            d = fresh(lambda: CfdpLv.unpack(rxbuf(raw, a["sfx"])))
            scramble()
            return {"octets": octs(raw), "plen": o.packet_len, "dec": octs(d.value), "dplen": d.packet_len}
        return after_pack(raw, rest)
    return outcome(run)


def op_lv_unpack(a):
    from spacepackets.cfdp.lv import CfdpLv

    def run():
        d = decoded(lambda: fresh(lambda: CfdpLv.unpack(bytes(a["octets"]))))
        return {"v": octs(d.value), "plen": d.packet_len}
    return outcome(run)


def op_tlv_rt(a):
    from spacepackets.cfdp.tlv import CfdpTlv
    from spacepackets.cfdp.tlv.defs import TlvType

    def run():
        o = CfdpTlv(enum_arg(TlvType, a["t"], tuple(a["v"][:4])), bytes(a["v"]))
        raw = owned(o.pack)

        def rest():
            d = fresh(lambda: CfdpTlv.unpack(rxbuf(raw, a["sfx"])))
            decode_other("tlv", CfdpTlv.unpack)
            return {"octets": octs(raw), "plen": o.packet_len, "dec": {"t": int(d.tlv_type), "v": octs(d.value)},
                    "dplen": d.packet_len, "eq": bool(d == o)}
        return after_pack(raw, rest)
    return outcome(run)


def op_tlv_unpack(a):
    from spacepackets.cfdp.tlv import CfdpTlv

    def run():
        d = decoded(lambda: fresh(lambda: CfdpTlv.unpack(bytes(a["octets"]))))
        return {"tlv": {"t": int(d.tlv_type), "v": octs(d.value)}, "plen": d.packet_len}
    return outcome(run)


def ctlv_class(cls):
    from spacepackets.cfdp import tlv as T
    return {"entity": T.EntityIdTlv, "flow": T.FlowLabelTlv, "fault": T.FaultHandlerOverrideTlv,
            "fsreq": T.FileStoreRequestTlv, "fsresp": T.FileStoreResponseTlv, "msg": T.MessageToUserTlv}[cls]


def mk_ctlv(cls, p):
    from spacepackets.cfdp import tlv as T
    from spacepackets.cfdp.defs import ConditionCode, FaultHandlerCode
    if cls == "entity":
        return T.EntityIdTlv(bytes(p["v"]))
    if cls == "flow":
        return T.FlowLabelTlv(bytes(p["v"]))
    if cls == "msg":
        return T.MessageToUserTlv(bytes(p["v"]))
    if cls == "fault":
        return T.FaultHandlerOverrideTlv(enum_arg(ConditionCode, p["cond"], p["handler"]), enum_arg(FaultHandlerCode, p["handler"], p["cond"]))
    if cls == "fsreq":
        return mk_fsreq(p)
    if cls == "fsresp":
        return mk_fsresp(p)
    raise ValueError(cls)


def proj_ctlv(cls, t):
    if cls in ("entity", "flow", "msg"):
        return {"v": octs(t.value)}
    if cls == "fault":
        return {"cond": int(t.condition_code), "handler": int(t.handler_code)}
    if cls == "fsreq":
        return proj_fsreq(t)
    return proj_fsresp(t)


_HOLDER = {}


def _via(cls, raw, via):
    from spacepackets.cfdp.tlv import CfdpTlv, TlvHolder
    from spacepackets.cfdp.tlv.defs import TlvType
    c = ctlv_class(cls)
    buf = bytes(raw) if isinstance(raw, (list, tuple)) else raw          # bytes / bytearray / memoryview pass as they are
    if via == "unpack":
        return c.unpack(buf)
    generic = CfdpTlv.unpack(buf)
    if (len(buf) + generic.value_len) % 2:
        # a generic TLV the caller built itself, with the type given as a plain integer (TlvType is an IntEnum)
        generic = CfdpTlv(int(generic.tlv_type), bytes(generic.value))
    if via == "from_tlv":
        res = c.from_tlv(generic)
    else:
        # ONE holder serves all conversions (an application keeps one per receive path): it held another TLV, converted it,
        # and is then given the TLV under test through its public attribute
        h = _HOLDER.get("h")
        if h is None:
            h = _HOLDER["h"] = TlvHolder(CfdpTlv.unpack(bytes([6, 2, 0x0E, 0x0E])))
        for conv in ("to_entity_id", "to_flow_label", "to_fault_handler_override", "to_fs_request", "to_fs_response", "to_msg_to_user"):
            try:
                getattr(h, conv)()
            except Exception:  # noqa
                pass
        try:
            h.tlv = generic
        except Exception:  # noqa
            h = TlvHolder(generic)
        res = {"entity": h.to_entity_id, "flow": h.to_flow_label, "fault": h.to_fault_handler_override,
               "fsreq": h.to_fs_request, "fsresp": h.to_fs_response, "msg": h.to_msg_to_user}[cls]()
    # the generic TLV is the caller's object; afterwards it is re-typed through its public setter - the converted object
    # (filestore TLVs parse their fields out of it) must keep its own type.  Classes that are documented wrappers around
    # the generic TLV (entity ID, flow label, message to user, fault handler) are left alone.
    if cls in ("fsreq", "fsresp"):
        try:
            generic.tlv_type = TlvType.FLOW_LABEL
        except Exception:  # noqa
            pass
    return res


def op_ctlv_rt(a):
    def run():
        return _ctlv_rt_body(a, mk_ctlv(a["cls"], a["p"]))
    return outcome(run)


def _ctlv_rt_body(a, o):
    if True:
        plen = o.packet_len
        raw = owned(o.pack)

        def rest():
            d = fresh(lambda: _via(a["cls"], rxbuf(raw, a["sfx"]), a.get("via", "unpack")))
            decode_other("ctlv:" + a["cls"], lambda b: _via(a["cls"], b, a.get("via", "unpack")))
            if type(d) is not ctlv_class(a["cls"]):
                return {"wrongclass": type(d).__name__}
            out = {"octets": octs(raw), "plen": plen, "dec": proj_ctlv(a["cls"], d), "dplen": d.packet_len,
                   "repack": octs(d.pack()), "eq": bool(d == o), "t": int(o.tlv_type)}
            if a["cls"] in ("fsreq", "fsresp"):
                # a second decoded object is changed through its public attribute BEFORE it is packed for the first time: it must
                # pack its current parameters (as an object built by the constructor does), not the image it came from
                d2 = _via(a["cls"], rxbuf(raw, a["sfx"]), a.get("via", "unpack"))
                n1 = a["p"]["n1"]
                d2.first_file_name = bytes(n1 + [122] if len(n1) < 200 else [122]).decode("utf-8")
                out["edit"] = outcome(lambda: octs(d2.pack()))
                if isinstance(out["edit"], dict):
                    out["edit"] = []
            return out
        return after_pack(raw, rest)


def op_ctlv_unpack(a):
    def run():
        d = decoded(lambda: fresh(lambda: _via(a["cls"], a["octets"], a.get("via", "unpack"))))
        out = {"p": proj_ctlv(a["cls"], d), "plen": d.packet_len}
        if len(d.pack()) != d.packet_len:           # "reports its packed length correctly" also for a decoded object
            out["repack_len"] = len(d.pack())
        return out
    return outcome(run)


def op_ctlv_mismatch(a):
    def run():
        if a["via"] == "holderobj":
            raise ValueError("unused")
        d = _via(a["cls"], a["octets"], a["via"])
        return {"accepted_as": type(d).__name__}
    return outcome(run)


def op_pdu_rt(a):
    def run():
        poison("pdu")
        mk = mk_pdu_via_setters if a.get("via") == "setter" else mk_pdu

        def _mut(t):
            from spacepackets.cfdp.defs import LargeFileFlag, CrcFlag
            o = t[0]
            o.pack()
            # lists handed out by getters are grown in place (a later object must not see that), then setters are used
            for name in ("segment_requests", "file_store_responses", "options"):
                lst = getattr(o, name, None)
                if isinstance(lst, list):
                    lst.append(lst[0] if lst else (7, 9))
            for name, val in (("file_data", b"\x77\x77\x77"), ("segment_requests", [(1, 2), (3, 4)]), ("options", None),
                              ("source_file_name", "twin"), ("file_store_responses", [])):
                if hasattr(type(o), name):
                    setattr(o, name, val)
            h = o.pdu_header
            h.pdu_conf.crc_flag = CrcFlag(1 - int(h.pdu_conf.crc_flag))
            h.pdu_conf.file_flag = LargeFileFlag(1 - int(h.pdu_conf.file_flag))
            h.pdu_conf.source_entity_id.value = 0
            h.pdu_data_field_len = 1
        twin(lambda: mk_pdu(a["kind"], a["cfg"], a["p"]), _mut)
        obj, conf, params, snap = mk(a["kind"], a["cfg"], a["p"])
        plen = obj.packet_len
        dflen = obj.pdu_data_field_len
        hlen = obj.header_len
        raw = owned(obj.pack)
        # a refusal must come from constructing / packing; octets that were emitted and then fail to decode are no refusal
        return after_pack(raw, lambda: rest(obj, conf, params, snap, plen, dflen, hlen, raw))

    def rest(obj, conf, params, snap, plen, dflen, hlen, raw):
        caller = _snapshot(conf, params) == snap
        d = fresh(lambda: pdu_class(a["kind"]).unpack(rxbuf(raw, a["sfx"])))
        decode_other("pdu:" + a["kind"], pdu_class(a["kind"]).unpack)
        rebuilt = outcome(lambda: octs(rebuild_pdu(a["kind"], d).pack()))
        out = {"octets": octs(raw), "plen": plen, "dflen": dflen, "hlen": hlen, "dec": proj_pdu(d),
                "dplen": d.packet_len, "ddflen": d.pdu_data_field_len, "eq": pdu_eq(d, obj),
                "repack": outcome(lambda: octs(d.pack())), "caller": caller, "rebuild": rebuilt}
        reuse_conf(conf)
        side_pack("pdu", proj_pdu, obj)
        return out
    return outcome(run)


def _row(holder):
    row = []
    for k in KIND_ORDER:
        fn = {"eof": holder.to_eof_pdu, "finished": holder.to_finished_pdu, "ack": holder.to_ack_pdu,
              "metadata": holder.to_metadata_pdu, "nak": holder.to_nak_pdu, "prompt": holder.to_prompt_pdu,
              "keepalive": holder.to_keep_alive_pdu, "filedata": holder.to_file_data_pdu}[k]
        try:
            r = fn()
            row.append("ok" if type(r) is pdu_class(k) else "wrongclass")
        except TypeError:
            row.append("type")
        except Exception as e:  # noqa
            row.append("UNDOC:" + type(e).__name__)
    return row


def op_pdu_fac(a):
    from spacepackets.cfdp.pdu.helper import PduFactory

    def run():
        # (the PDU handed to the factory's peer was constructed, or reached its values through setters)
        mk = mk_pdu_via_setters if (len(a["cfg"]["seq"]) + a["cfg"]["crc"] + len(a.get("sfx", []))) % 2 else mk_pdu
        obj, conf, params, _ = mk(a["kind"], a["cfg"], a["p"])
        raw = bytes(owned(obj.pack))
        return after_pack(raw, lambda: rest(obj, raw, conf))

    def rest(obj, raw, conf):
        from spacepackets.cfdp.pdu.helper import PduFactory
        buf = rxbuf(raw, a["sfx"])
        d = fresh(lambda: PduFactory.from_raw(buf))
        if d is None:
            return {"cls": "none"}
        h = PduFactory.from_raw_to_holder(buf)
        for k in (a["kind"], "prompt" if a["kind"] != "prompt" else "eof"):
            decode_other("pdu:" + k, PduFactory.from_raw)
        buf = rxbuf(raw, a["sfx"])              # (the first buffer was re-used by the probe above)
        dt = PduFactory.pdu_directive_type(buf)
        hdt = h.pdu_directive_type
        reuse_conf(conf)
        side_pack("pdu", proj_pdu, obj)
        return {"cls": kind_of(d), "eq": pdu_eq(d, obj), "repack": outcome(lambda: octs(d.pack())),
                "ptype": int(PduFactory.pdu_type(buf)), "isdir": bool(PduFactory.is_file_directive(buf)),
                "dtype": -1 if dt is None else int(dt), "hptype": int(h.pdu_type), "hdtype": -1 if hdt is None else int(hdt),
                "hplen": h.packet_len, "hpack": octs(h.pack()), "row": _row(h)}
    return outcome(run)


def op_pdu_unpack(a):
    from spacepackets.cfdp.pdu.helper import PduFactory

    def run():
        buf = bytes(a["octets"])
        d = decoded(lambda: fresh(lambda: PduFactory.from_raw(buf) if a["want"] == "any" else pdu_class(a["want"]).unpack(buf)))
        if d is None:
            return {"exc": "value"}        # the factory's documented "not a known directive" answer
        return {"pdu": proj_pdu(d), "plen": d.packet_len}
    return outcome(run)


def op_holder_matrix(a):
    from spacepackets.cfdp.pdu.helper import PduHolder
    from .probe import _raw

    def run():
        obj, _, _, _ = mk_pdu(a["kind"], a["cfg"], a["p"])
        fresh = _row(PduHolder(obj))
        # a holder with a history: it held another PDU whose accessors / inspectors were used, then the PDU under test is
        # assigned (attribute and property route); it must answer exactly like a fresh holder
        for route in ("pdu", "base"):
            other = "prompt" if a["kind"] != "prompt" else "eof"
            h = PduHolder(pdu_class(other).unpack(_raw("pdu:" + other)))
            _row(h), h.pdu_directive_type, h.pdu_type, h.packet_len
            setattr(h, route, obj)
            used = _row(h)
            dt = h.pdu_directive_type
            want = None if a["kind"] == "filedata" else int(obj.directive_type)
            if used != fresh or (None if dt is None else int(dt)) != want:
                return {"row": used, "history": f"holder re-used via .{route}: directive type {dt}, fresh row {fresh}"}
        return {"row": fresh}
    return outcome(run)


def op_fd_maxseg(a):
    from spacepackets.cfdp.pdu.file_data import (get_max_file_seg_len_for_max_packet_len_and_pdu_cfg, SegmentMetadata,
                                                 RecordContinuationState)

    def run():
        sm = None
        if a["meta"]:
            sm = SegmentMetadata(RecordContinuationState(a["meta"][0]["state"]), bytes(a["meta"][0]["md"]))
        return {"n": int(get_max_file_seg_len_for_max_packet_len_and_pdu_cfg(mk_cfg(a["cfg"]), a["maxlen"], sm))}
    return outcome(run)


def op_nak_maxsegs(a):
    from spacepackets.cfdp.pdu.nak import get_max_seg_reqs_for_max_packet_size_and_pdu_cfg
    return outcome(lambda: {"n": int(get_max_seg_reqs_for_max_packet_size_and_pdu_cfg(a["maxlen"], mk_cfg(a["cfg"])))})


OPS = {
    "cfdphdr.rt": op_cfdphdr_rt, "cfdphdr.unpack": op_cfdphdr_unpack, "lv.rt": op_lv_rt, "lv.unpack": op_lv_unpack,
    "tlv.rt": op_tlv_rt, "tlv.unpack": op_tlv_unpack, "ctlv.rt": op_ctlv_rt, "ctlv.unpack": op_ctlv_unpack,
    "ctlv.mismatch": op_ctlv_mismatch, "pdu.rt": op_pdu_rt, "pdu.fac": op_pdu_fac, "pdu.unpack": op_pdu_unpack,
    "holder.matrix": op_holder_matrix, "fd.maxseg": op_fd_maxseg, "nak.maxsegs": op_nak_maxsegs,
}
