"""Adapters for CDS short timestamps. Floats (Unix seconds) are converted exactly (Fraction) to
integer microseconds and snapped to the millisecond when within 1 microsecond of it - a double
resolves about 1 microsecond at 5e9 seconds, the property is about whole milliseconds."""
from __future__ import annotations

import datetime
from fractions import Fraction

from .core import outcome, octs, rxbuf, decoded, owned
from .probe import fresh

UTC = datetime.timezone.utc
EPOCH58 = datetime.datetime(1958, 1, 1, tzinfo=UTC)
MS_DAY = 86400000


def _snap_us(t):
    """integer microseconds -> (milliseconds, leftover microseconds not explained by the tolerance)"""
    r = t % 1000
    if r <= 1:
        return t // 1000, 0
    if r >= 999:
        return t // 1000 + 1, 0
    return t // 1000, r


def unix_pair(x):
    f = Fraction(x) * 1000000
    t = int(f + Fraction(1, 2)) if f >= 0 else -int(-f + Fraction(1, 2))
    ms, left = _snap_us(t)
    d, m = divmod(ms, MS_DAY)
    return [d, m] if left == 0 else [d, m, left]


def civil(dt):
    if dt.tzinfo is None or dt.utcoffset() != datetime.timedelta(0):
        return {"tz": "not-utc"}
    t = (dt - EPOCH58) // datetime.timedelta(microseconds=1)
    ms, left = _snap_us(t)
    e = EPOCH58 + datetime.timedelta(milliseconds=ms)
    c = {"y": e.year, "mo": e.month, "d": e.day, "h": e.hour, "mi": e.minute, "s": e.second, "ms": e.microsecond // 1000}
    if left:
        c["us"] = left
    return c


def ms4(ms):
    return list(int(ms).to_bytes(4, "big"))


def view(s):
    dt1, dt2 = s.as_datetime(), s.as_date_time()
    c = civil(dt1)
    if dt1 != dt2:
        c["deprecated_view_differs"] = True
    return {"days": int(s.ccsds_days), "ms": ms4(s.ms_of_day), "octets": octs(s.pack()),
            "unix": unix_pair(s.as_unix_seconds()), "civil": c}


def _mk(st):
    from spacepackets.ccsds.time import CdsShortTimestamp
    CdsShortTimestamp.now()             # an application stamps its own packets all the time: "now" must not colour other stamps
    return CdsShortTimestamp(st["days"], st["ms"])


def op_cds_rt(a):
    from spacepackets.ccsds.time import CdsShortTimestamp

    def run():
        from .probe import twin
        twin(lambda: _mk(a["st"]), lambda x: (x + datetime.timedelta(days=1, milliseconds=1), x.read_from_raw(bytes([64, 1, 1, 0, 0, 1, 1]))))
        s = _mk(a["st"])
        raw = rxbuf(owned(s.pack), a["sfx"])
        d = CdsShortTimestamp.unpack(raw)
        t = CdsShortTimestamp.unpack_from_raw(raw)
        # read_from_raw on objects with a history: an empty one and one built by from_datetime (whose views were
        # filled by another route)
        r = CdsShortTimestamp.empty()
        r.read_from_raw(raw)
        r2 = CdsShortTimestamp.from_datetime(datetime.datetime(1999, 12, 31, 23, 59, 58, 123000, tzinfo=UTC))
        r2.as_datetime(), r2.as_unix_seconds()
        r2.read_from_raw(raw)
        if view(r2) != view(r):
            return {"read_from_raw": "depends on the object's history", "fresh": view(r), "used": view(r2)}
        u = CdsShortTimestamp.from_unix_days(a["st"]["days"] - 4383, a["st"]["ms"])
        eq = bool(d == s) and bool(s == d) and bool(u == s)
        return {"view": view(s), "len": s.len_packed, "pfield": octs(s.pfield),
                "dec": {"days": int(d.ccsds_days), "ms": ms4(d.ms_of_day)}, "draw": {"days": int(t[0]), "ms": ms4(t[1])},
                "dread": view(r), "eq": eq, "code": int(s.ccsds_time_code())}
    return outcome(run)


def op_cds_unpack(a):
    from spacepackets.ccsds.time import CdsShortTimestamp

    def run():
        d = decoded(lambda: fresh(lambda: CdsShortTimestamp.unpack(bytes(a["octets"]))))
        return {"st": {"days": int(d.ccsds_days), "ms": ms4(d.ms_of_day)}, "repack": octs(d.pack())}
    return outcome(run)


def op_cds_from_dt(a):
    from spacepackets.ccsds.time import CdsShortTimestamp
    t = a["t"]

    def run():
        dt = datetime.datetime(t["y"], t["mo"], t["d"], t["h"], t["mi"], t["s"], t["us"], tzinfo=UTC)
        # the same instant as an aware datetime of another zone (two in three events): the stamp is that of the instant
        k = (t["d"] + t["h"] + t["mi"] + t["s"]) % 3
        if k and 1900 < t["y"] < 9000:
            off = ((t["h"] * 60 + t["mi"] + t["d"] * 97) % (26 * 4) - 12 * 4) * 15          # -12:00 .. +13:45 in quarter hours
            dt = dt.astimezone(datetime.timezone(datetime.timedelta(minutes=off)))
        s = CdsShortTimestamp.from_datetime(dt)
        # the object's own datetime / Unix views are the datetime it was built from (sub-millisecond part included);
        # the stamp is judged through a fresh object built from its (days, ms)
        return {"view": view(CdsShortTimestamp(s.ccsds_days, s.ms_of_day)) if 0 <= s.ccsds_days <= 65535 else
                {"days": int(s.ccsds_days), "ms": ms4(s.ms_of_day)}}
    return outcome(run)


def op_cds_add(a):
    td = a["td"]

    def run():
        if a.get("via") == "from_dt":
            from spacepackets.ccsds.time import CdsShortTimestamp
            s = CdsShortTimestamp.from_datetime(EPOCH58 + datetime.timedelta(days=a["st"]["days"], milliseconds=a["st"]["ms"]))
        else:
            s = _mk(a["st"])
        delta = datetime.timedelta(days=td["days"], seconds=td["secs"], microseconds=td["us"])
        if a.get("via") != "from_dt" and (td["us"] + td["secs"]) % 2:
            # an addition is a function of (stamp, timedelta): earlier additions of less than a millisecond on the same object
            # that left the stamp where it was must not change what this one gives
            for k in (600, 1 + (td["us"] * 7 + td["secs"]) % 999):
                before = (int(s.ccsds_days), int(s.ms_of_day))
                s + datetime.timedelta(microseconds=k)
                if (int(s.ccsds_days), int(s.ms_of_day)) != before:
                    s = _mk(a["st"])           # (a library that rounds up: start again without a history)
                    break
            else:
                r = view(s + delta)
                plain = view(_mk(a["st"]) + delta)
                if r != plain:
                    return {"view": r, "without_earlier_submillisecond_additions": plain}
                return {"view": r}
        r = s + delta
        return {"view": view(r)}
    return outcome(run)


def op_cds_cmp(a):
    def run():
        s1, s2 = _mk(a["s1"]), _mk(a["s2"])
        return {"unixlt": bool(s1.as_unix_seconds() < s2.as_unix_seconds()),
                "dtlt": bool(s1.as_datetime() < s2.as_datetime()), "eq": bool(s1 == s2)}
    return outcome(run)


OPS = {"cds.rt": op_cds_rt, "cds.unpack": op_cds_unpack, "cds.from_dt": op_cds_from_dt, "cds.add": op_cds_add,
       "cds.cmp": op_cds_cmp}
