"""pytest plugin: records the library calls the REPOSITORY'S OWN tests make, at each call's return, as events of the
specification's vocabulary (trace validation of the existing test-suite: the tests choose the calls, TLC judges every one
of them against the specification instead of the few assertions the test makes).

Loaded with  `-p vp.repotrace`  (PYTHONPATH = harness), output file in VP_REPOTRACE_OUT.  Nothing in /repo is edited: the
public decode / encode entry points are wrapped in this process only.  A wrapper
  * lets the original run untouched and returns / re-raises exactly what it produced,
  * projects a DEEP COPY of the result (or of `self` before a pack) with the same projection functions the adapters use, so
    the test's objects are never touched by the recording,
  * never lets a recording problem reach the test (an event that cannot be projected is counted and dropped).
Stateful APIs (stream parser, counters, tracker) are recorded as short histories for the Trace_* specifications."""
from __future__ import annotations

import collections
import copy
import inspect
import json
import os

from . import core
from .core import octs, family

OUT = os.environ.get("VP_REPOTRACE_OUT")
EVENTS = []
STATS = collections.Counter()
_busy = [0]
_test = ["?"]


def _emit(kind, ev):
    ev["test"] = _test[0]
    ev["stream"] = kind
    EVENTS.append(ev)


def _is_octets(x):
    return isinstance(x, (bytes, bytearray))


def _adapter(op, a, result):
    """The adapter's observation of an already decoded object (deep copy)."""
    from .ops import OPS
    core._INJ.append(copy.deepcopy(result))
    try:
        return OPS[op](a)
    finally:
        del core._INJ[:]


def _bind(fn, args, kwargs):
    try:
        b = inspect.signature(fn).bind(*args, **kwargs)
        b.apply_defaults()
        return list(b.arguments.values())
    except TypeError:
        return None


def wrap_unpack(cls, name, op, mk_a):
    """mk_a(bound argument values without cls) -> adapter arguments or None (call not expressible: skipped)."""
    raw = cls.__dict__.get(name)
    if raw is None:
        return
    is_cm = isinstance(raw, classmethod)
    is_sm = isinstance(raw, staticmethod)
    orig = raw.__func__ if (is_cm or is_sm) else raw

    def body(first, args, kwargs):
        call = (lambda: orig(first, *args, **kwargs)) if is_cm else (lambda: orig(*args, **kwargs))
        if _busy[0]:
            return call()
        a = None
        try:
            vals = _bind(orig, ((first,) if is_cm else ()) + tuple(args), kwargs)
            if vals is not None:
                a = mk_a(vals[1:] if is_cm else vals, first if is_cm else cls)
        except Exception:
            a = None
        try:
            r = call()
        except BaseException as e:
            if a is not None and not isinstance(e, (KeyboardInterrupt, SystemExit)):
                _emit("codec", {"op": op, "a": a, "o": {"exc": family(e)}})
            raise
        if a is not None:
            _busy[0] += 1
            try:
                _emit("codec", {"op": op, "a": a, "o": _adapter(op, a, r)})
            except BaseException:
                STATS["unprojectable:" + op] += 1
            finally:
                _busy[0] -= 1
        return r

    if is_cm:
        def w(c, *args, **kwargs):
            if c is not cls:            # a subclass: not the entry point the operation names
                return orig(c, *args, **kwargs)
            return body(c, args, kwargs)
        setattr(cls, name, classmethod(w))
    else:
        def w(*args, **kwargs):
            return body(None, args, kwargs)
        setattr(cls, name, staticmethod(w) if is_sm else w)


def wrap_pack(cls, label, proj):
    orig = cls.__dict__.get("pack")
    if orig is None:
        return

    def w(self, *args, **kwargs):
        if _busy[0] or type(self) is not cls or args or kwargs:
            return orig(self, *args, **kwargs)
        v = None
        _busy[0] += 1
        try:
            v = proj(copy.deepcopy(self))
        except BaseException:
            STATS["unprojectable:pack:" + label] += 1
        finally:
            _busy[0] -= 1
        try:
            r = orig(self, *args, **kwargs)
        except BaseException as e:
            if v is not None and not isinstance(e, (KeyboardInterrupt, SystemExit)):
                _emit("codec", {"op": "obs.pack", "a": {"cls": label, "v": v}, "o": {"exc": family(e)}})
            raise
        if v is not None and _is_octets(r):
            _emit("codec", {"op": "obs.pack", "a": {"cls": label, "v": v}, "o": {"octets": octs(r)}})
        return r
    cls.pack = w


def _o(x):
    return octs(x) if _is_octets(x) else None


def install_codecs():
    from spacepackets.ccsds.spacepacket import SpacePacketHeader
    from spacepackets.ecss.tc import PusTc
    from spacepackets.ecss.tm import PusTm
    from spacepackets.ecss.pus_17_test import Service17Tm
    from spacepackets.ecss.req_id import RequestId
    from spacepackets.ecss import pus_1_verification as S1
    from spacepackets.ccsds.time import CdsShortTimestamp
    from spacepackets.cfdp.pdu.header import PduHeader
    from spacepackets.cfdp.lv import CfdpLv
    from spacepackets.cfdp.tlv import CfdpTlv
    from spacepackets.cfdp.pdu.helper import PduFactory
    from spacepackets.uslp.header import PrimaryHeader, TruncatedPrimaryHeader
    from . import ops_ecss, ops_cfdp, ops_srv1, ops_uslp

    def one(vals, _c):
        return {"octets": _o(vals[0])} if _is_octets(vals[0]) else None

    wrap_unpack(SpacePacketHeader, "unpack", "sph.unpack", one)
    wrap_unpack(PusTc, "unpack", "tc.unpack", one)
    wrap_unpack(PusTm, "unpack", "tm.unpack",
                lambda v, _c: {"octets": _o(v[0]), "tslen": int(v[1]), "via": "tm"} if _is_octets(v[0]) and isinstance(v[1], int) else None)
    wrap_unpack(Service17Tm, "unpack", "tm.unpack",
                lambda v, _c: {"octets": _o(v[0]), "tslen": int(v[1]), "via": "srv17"} if _is_octets(v[0]) and isinstance(v[1], int) else None)
    wrap_unpack(RequestId, "unpack", "reqid.unpack", one)
    wrap_unpack(CdsShortTimestamp, "unpack", "cds.unpack", one)
    wrap_unpack(PduHeader, "unpack", "cfdphdr.unpack", one)
    wrap_unpack(CfdpLv, "unpack", "lv.unpack", one)
    wrap_unpack(CfdpTlv, "unpack", "tlv.unpack", one)
    wrap_unpack(S1.Service1Tm, "unpack", "srv1.unpack",
                lambda v, _c: ({"octets": _o(v[0]), "tslen": int(v[1].timestamp_len), "stepw": int(v[1].bytes_step_id),
                                "errw": int(v[1].bytes_err_code)} if _is_octets(v[0]) else None))
    for kind in ops_cfdp.KIND_NAMES:
        wrap_unpack(ops_cfdp.pdu_class(kind), "unpack", "pdu.unpack",
                    (lambda k: lambda v, _c: {"want": k, "octets": _o(v[0])} if _is_octets(v[0]) else None)(kind))
        wrap_pack(ops_cfdp.pdu_class(kind), "pdu", ops_cfdp.proj_pdu)
    wrap_unpack(PduFactory, "from_raw", "pdu.unpack",
                lambda v, _c: {"want": "any", "octets": _o(v[0])} if _is_octets(v[0]) else None)
    for name in ("entity", "flow", "fault", "fsreq", "fsresp", "msg"):
        wrap_unpack(ops_cfdp.ctlv_class(name), "unpack", "ctlv.unpack",
                    (lambda n: lambda v, _c: {"cls": n, "octets": _o(v[0]), "via": "unpack"} if _is_octets(v[0]) else None)(name))
    wrap_unpack(PrimaryHeader, "unpack", "uslp.hdr.unpack",
                lambda v, _c: {"octets": _o(v[0]), "trunc": 0} if _is_octets(v[0]) and len(v) == 1 else None)
    wrap_unpack(TruncatedPrimaryHeader, "unpack", "uslp.hdr.unpack",
                lambda v, _c: {"octets": _o(v[0]), "trunc": 1} if _is_octets(v[0]) and len(v) == 1 else None)

    wrap_pack(SpacePacketHeader, "sph", ops_ecss._hdr_proj)
    wrap_pack(PusTc, "tc", ops_ecss.tc_proj)
    wrap_pack(PusTm, "tm", ops_ecss.tm_proj)
    wrap_pack(RequestId, "reqid", ops_srv1.proj_req)
    wrap_pack(CdsShortTimestamp, "cds", lambda s: {"days": int(s.ccsds_days), "ms": list(int(s.ms_of_day).to_bytes(4, "big"))})
    wrap_pack(PduHeader, "cfdphdr", ops_cfdp.proj_hdr)
    wrap_pack(CfdpLv, "lv", lambda x: {"v": octs(x.value)})
    wrap_pack(CfdpTlv, "tlv", lambda x: {"t": int(x.tlv_type), "v": octs(x.value)})
    wrap_pack(PrimaryHeader, "uslphdr", ops_uslp.proj_hdr)
    wrap_pack(TruncatedPrimaryHeader, "uslphdr", ops_uslp.proj_hdr)


# ---------------------------------------------------------------------------------------------------------------------
# stateful APIs
# ---------------------------------------------------------------------------------------------------------------------
def install_parser():
    """parse_space_packets is imported by name into test modules, so the function object is replaced in the module that
    defines it and in every module that already holds a reference (done again at collection end)."""
    from spacepackets.ccsds import spacepacket as SP
    orig = SP.parse_space_packets
    if getattr(orig, "_vp", False):
        return

    def w(analysis_queue, packet_ids):
        if _busy[0]:
            return orig(analysis_queue, packet_ids)
        pre = None
        try:
            if isinstance(analysis_queue, collections.deque) and all(_is_octets(c) for c in analysis_queue):
                pre = {"ids": [int(p.raw()) for p in packet_ids], "chunks": [octs(c) for c in analysis_queue]}
        except Exception:
            pre = None
        try:
            r = orig(analysis_queue, packet_ids)
        except BaseException as e:
            if pre is not None and not isinstance(e, (KeyboardInterrupt, SystemExit)):
                _emit("parser", {"pre": pre, "ret": {"exc": family(e)}})
            raise
        if pre is not None:
            try:
                _emit("parser", {"pre": pre, "ret": {"out": [octs(p) for p in r]}, "queue": [octs(c) for c in analysis_queue]})
            except Exception:
                STATS["unprojectable:parser"] += 1
        return r
    w._vp = True
    w._orig = orig
    SP.parse_space_packets = w
    import spacepackets.ccsds as C
    if getattr(C, "parse_space_packets", None) is orig:
        C.parse_space_packets = w


def rebind_parser():
    import sys
    from spacepackets.ccsds import spacepacket as SP
    w = SP.parse_space_packets
    orig = getattr(w, "_orig", None)
    if orig is None:
        return
    for m in list(sys.modules.values()):
        d = getattr(m, "__dict__", None)
        if d and d.get("parse_space_packets") is orig:
            d["parse_space_packets"] = w


def install_counters():
    from spacepackets import seqcount as Q

    def file_state(p):
        try:
            return {"c": list(p.read_bytes())} if p.exists() else {"m": True}
        except Exception:
            return None

    def wrap_file(name, op):
        orig = Q.FileSeqCountProvider.__dict__[name]

        def w(self):
            if _busy[0]:
                return orig(self)
            pre = file_state(self.file_name)
            width = self.max_bit_width
            try:
                r = orig(self)
            except BaseException as e:
                if pre is not None and not isinstance(e, (KeyboardInterrupt, SystemExit)):
                    _emit("counter", {"w": int(width), "pre": pre, "op": op, "ret": {"exc": family(e)}, "file": file_state(self.file_name)})
                raise
            post = file_state(self.file_name)
            if pre is not None and post is not None and isinstance(r, int):
                _emit("counter", {"w": int(width), "pre": pre, "op": op, "ret": {"vd": list(str(int(r)).encode())}, "file": post})
            return r
        setattr(Q.FileSeqCountProvider, name, w)
    wrap_file("get_and_increment", "next_file")
    wrap_file("current", "current")

    orig_mem = Q.SeqCountProvider.__dict__["get_and_increment"]

    def wm(self):
        if _busy[0]:
            return orig_mem(self)
        pre, width = self.count, self.max_bit_width
        r = orig_mem(self)
        if isinstance(pre, int) and isinstance(r, int) and 0 <= pre < 2 ** width:
            _emit("counter", {"w": int(width), "mem": list(str(pre).encode()), "op": "next_mem", "ret": {"vd": list(str(int(r)).encode())}})
        return r
    Q.SeqCountProvider.get_and_increment = wm


TRACKERS = {}          # id(instance) -> {"obj": instance (kept alive), "index": {request id octets: t}, "events": [...]}


def install_tracker():
    from spacepackets.ecss.pus_verificator import PusVerificator
    from spacepackets.ecss.req_id import RequestId

    def slot(v):
        s = TRACKERS.get(id(v))
        if s is None or s["obj"] is not v:
            s = TRACKERS[id(v)] = {"obj": v, "index": {}, "events": [], "test": _test[0]}
        return s

    def idx(s, rid):
        k = bytes(rid.pack())
        return s["index"].setdefault(k, len(s["index"]) + 1)

    def status(x):
        return {"all": bool(x.all_verifs_recvd), "acc": int(x.accepted), "sta": int(x.started), "stp": int(x.step),
                "steps": [int(i) for i in x.step_list], "cmp": int(x.completed)}

    def tab(s):
        d = s["obj"].verif_dict
        by = {bytes(k.pack()): val for k, val in d.items()}
        out = [status(by[k]) if k in by else {"absent": True} for k in s["index"]]
        extra = len([k for k in by if k not in s["index"]])
        if extra:
            out.append({"extra_keys": extra})
        return out

    def wrap(name, mk_ev, mk_ret):
        orig = PusVerificator.__dict__[name]

        def w(self, *args, **kwargs):
            if _busy[0]:
                return orig(self, *args, **kwargs)
            ev = None
            _busy[0] += 1
            try:
                s = slot(self)
                ev = mk_ev(s, *args, **kwargs)
            except BaseException:
                STATS["unprojectable:tracker." + name] += 1
            finally:
                _busy[0] -= 1
            r = orig(self, *args, **kwargs)
            if ev is not None:
                _busy[0] += 1
                try:
                    ev["ret"] = mk_ret(r)
                    ev["tab"] = tab(s)
                    s["events"].append(ev)
                except BaseException:
                    STATS["unprojectable:tracker." + name] += 1
                    s["events"].append(None)          # history broken here
                finally:
                    _busy[0] -= 1
            return r
        setattr(PusVerificator, name, w)

    def ev_tm(s, tm):
        sub = int(tm.subservice)
        k = int(tm.step_id.val) if sub in (5, 6) and tm.step_id is not None else 0
        return {"op": "add_tm", "t": idx(s, tm.tc_req_id), "sub": sub, "k": k}

    wrap("add_tc", lambda s, tc: {"op": "add_tc", "t": idx(s, RequestId.from_sp_header(tc.sp_header))}, lambda r: bool(r))
    wrap("add_tm", ev_tm,
         lambda r: {"none": True} if r is None else {"completed": bool(r.completed), "status": status(r.status)})
    wrap("remove_entry", lambda s, rid: {"op": "remove_entry", "t": idx(s, rid)}, lambda r: bool(r))
    wrap("remove_completed_entries", lambda s: {"op": "remove_completed"}, lambda r: "none")


def pytest_configure(config):
    import spacepackets
    here = os.path.abspath(os.getcwd()) + os.sep
    if not os.path.abspath(spacepackets.__file__).startswith(here):
        raise RuntimeError(f"spacepackets imported from {spacepackets.__file__}, not from {here}")
    install_codecs()
    install_parser()
    install_counters()
    install_tracker()


def pytest_collection_finish(session):
    rebind_parser()


def pytest_runtest_setup(item):
    _test[0] = item.nodeid


def pytest_sessionfinish(session, exitstatus):
    if OUT:
        with open(OUT, "w") as f:
            for e in EVENTS:
                f.write(json.dumps(e, separators=(",", ":")) + "\n")
            for s in TRACKERS.values():
                evs = s["events"]
                if None in evs:
                    evs = evs[:evs.index(None)]
                if evs and len(s["index"]) <= 6:
                    f.write(json.dumps({"stream": "tracker", "test": s["test"], "n": len(s["index"]), "events": evs},
                                       separators=(",", ":")) + "\n")
            f.write(json.dumps({"stream": "stats", "stats": dict(STATS), "exitstatus": int(exitstatus)}) + "\n")
