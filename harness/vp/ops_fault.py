"""Adapters for the fault / robustness layer: burst corruption of CRC-protected packets (C04),
splitting of back-to-back units by reported lengths (C09), arbitrary input into every public
decode entry point (C10)."""
from __future__ import annotations

from .core import outcome, octs, family, guarded, Watchdog, assign_grown
from .ops_ecss import mk_tc, mk_tm, _mk_hdr, _inner_tm
from .ops_cfdp import mk_pdu, pdu_class, mk_cfg, ctlv_class, mk_ctlv, bf
from . import ops_srv1, ops_time, ops_uslp

DOC = ("value", "crc", "version", "tlvtype", "uslp")


def flip_bits(raw, off, w, pat):
    """Python twin of Octets!FlipBits: bit 0 is the most significant bit of the first octet; the burst is the
    w binary digits of pat, most significant first, starting at bit offset off."""
    b = bytearray(raw)
    for i in range(w):
        if (pat >> (w - 1 - i)) & 1:
            k = off + i
            b[k // 8] ^= 0x80 >> (k % 8)
    return bytes(b)


def _verdict(fn):
    """'acc' if the decoder returned an object, 'rej' for a documented refusal, else the undocumented family."""
    try:
        r = guarded(fn)
    except BaseException as e:  # noqa
        if isinstance(e, (KeyboardInterrupt, SystemExit)):
            raise
        f = family(e)
        return "rej" if f in DOC else f
    return "rej" if r is None else "acc"


def op_fault_decode(a):
    from spacepackets.ecss import check_pus_crc

    def run():
        kind = a["kind"]
        if a["w"] == 0:
            from .probe import poison
            poison("pdu" if kind == "pdu" else kind)
        if kind == "pdu":
            from spacepackets.cfdp.pdu.helper import PduFactory
            # ("whatever fields were set or changed before packing": clean schedules reach the PDU through its setters too)
            from .ops_cfdp import mk_pdu_via_setters
            via_setters = a["w"] == 0 and (len(a["cfg"]["src"]) + len(a["cfg"]["seq"]) + a["cfg"]["large"]) % 2 == 1
            obj, _, _, _ = (mk_pdu_via_setters if via_setters else mk_pdu)(a["pk"], a["cfg"], a["p"])
            raw = bytes(obj.pack())
            dec = lambda b: pdu_class(a["pk"]).unpack(b)
            gen = lambda b: PduFactory.from_raw(b)
        else:
            # every other schedule keeps the data in a bytearray (the view / pack calls must not touch it)
            # (clean schedules without explicit setters also reach the packet through the setter route: other values first,
            # pack, setters - including content of the same length and CRC-32 and an edited transmit buffer)
            hist = a["w"] == 0 and not a["mut"] and (a["p"]["apid"] + a["p"]["seq"]) % 3 == 0
            obj = (mk_tc(a["p"], "setter" if hist else ("bytearray" if len(a["p"]["data"]) % 2 else "ctor")) if kind == "tc"
                   else mk_tm(a["p"], "setter" if hist else ("bytearray" if len(a["p"]["data"]) % 2 else "tm")))
            if a["mut"]:
                obj.pack()                  # an earlier pack() must not leave a checksum behind that survives the setters
            for m in a["mut"]:
                f, x = m["f"], m["x"]
                if f == "data" and kind == "tc":
                    assign_grown(obj, "app_data", x)
                elif f == "data":
                    assign_grown(obj, "tm_data", x)
                elif f == "apid":
                    obj.apid = x
                elif f == "seq":
                    obj.seq_count = x
                else:
                    raise ValueError(f)
            if (a["p"]["seq"] + len(a["p"]["data"])) % 2:
                view = bytes(obj.to_space_packet().pack())
                raw = bytes(obj.pack())
            else:                                   # pack() first: the view re-computes the checksum on its own
                raw = bytes(obj.pack())
                view = bytes(obj.to_space_packet().pack())
            if kind == "tc":
                from spacepackets.ecss.tc import PusTc
                dec = lambda b: PusTc.unpack(b)
            else:
                from spacepackets.ecss.tm import PusTm
                tsl = len(a["p"]["stamp"])
                dec = lambda b: PusTm.unpack(b, tsl)
            gen = None
        bad = flip_bits(raw, a["off"], a["w"], a["pat"]) if a["w"] else raw
        out = {"cls": _verdict(lambda: dec(bad)), "gen": _verdict(lambda: gen(bad)) if gen else "na", "octets": octs(raw)}
        out["crcfn"] = "na" if kind == "pdu" else ("ok" if check_pus_crc(bad) else "bad")
        out["view"] = "na" if kind == "pdu" else ("ok" if (view == raw and check_pus_crc(view)) else "bad")
        return out
    return outcome(run)


# ---------------------------------------------------------------------------------------
def _unit(u, build=True):
    """-> (packed octets, decode(buffer) -> (reported length, repacked octets)); build=False: the decoder alone (the unit's
    parameters need not be something the library can construct)"""
    k, p = u["k"], u["p"]
    if k == "sph":
        from spacepackets.ccsds.spacepacket import SpacePacketHeader
        def d(b):
            x = SpacePacketHeader.unpack(b)
            return x.header_len, x.pack()
        return _mk_hdr(p).pack() if build else None, d
    if k == "tc":
        from spacepackets.ecss.tc import PusTc

        def d(b):
            x = PusTc.unpack(b)
            return x.packet_len, x.pack()
        return (mk_tc(p).pack() if build else None), d
    if k in ("tm", "srv17"):
        from spacepackets.ecss.tm import PusTm
        from spacepackets.ecss.pus_17_test import Service17Tm
        cls = Service17Tm if k == "srv17" else PusTm
        n = len(p["stamp"])

        def d(b):
            x = cls.unpack(b, n)
            return _inner_tm(x).packet_len, x.pack()
        return (mk_tm(p, "srv17" if k == "srv17" else "tm").pack() if build else None), d
    if k == "srv1":
        from spacepackets.ecss import pus_1_verification as S
        sw, ew = ops_srv1._widths(p)
        up = ops_srv1.unpack_params(len(p["stamp"]), sw, ew)

        def d(b):
            x = S.Service1Tm.unpack(b, up)
            return x.pus_tm.packet_len, x.pack()
        return (ops_srv1.mk_srv1({"p": p, "via": "ctor"}).pack() if build else None), d
    if k == "cds":
        from spacepackets.ccsds.time import CdsShortTimestamp

        def d(b):
            x = CdsShortTimestamp.unpack(b)
            return x.len_packed, x.pack()
        return (CdsShortTimestamp(p["days"], p["ms"]).pack() if build else None), d
    if k == "reqid":
        from spacepackets.ecss.req_id import RequestId

        def d(b):
            x = RequestId.unpack(b)
            return len(x.pack()), x.pack()
        return (ops_srv1.mk_req(p).pack() if build else None), d
    if k == "cfdphdr":
        from spacepackets.cfdp.pdu.header import PduHeader
        from spacepackets.cfdp.defs import PduType, SegmentMetadataFlag
        def d(b):
            x = PduHeader.unpack(b)
            return x.header_len, x.pack()
        if not build:
            return None, d
        conf = mk_cfg({"crc": p["crc"], "large": p["large"], "mode": p["mode"], "segctrl": p["segctrl"], "dir": p["dir"],
                       "src": p["src"], "dst": p["dst"], "seq": p["seq"]})
        return (PduHeader(PduType(p["type"]), SegmentMetadataFlag(p["segmeta"]), p["dlen"], conf).pack() if build else None), d
    if k == "lv":
        from spacepackets.cfdp.lv import CfdpLv

        def d(b):
            x = CfdpLv.unpack(b)
            return x.packet_len, x.pack()
        return (CfdpLv(bytes(p["v"])).pack() if build else None), d
    if k == "tlv":
        from spacepackets.cfdp.tlv import CfdpTlv
        from spacepackets.cfdp.tlv.defs import TlvType

        def d(b):
            x = CfdpTlv.unpack(b)
            return x.packet_len, x.pack()
        return (CfdpTlv(TlvType(p["t"]), bytes(p["v"])).pack() if build else None), d
    if k == "ctlv":
        c = ctlv_class(p["cls"])

        def d(b):
            x = c.unpack(b)
            return x.packet_len, x.pack()
        return (mk_ctlv(p["cls"], p["p"]).pack() if build else None), d
    if k == "uslphdr":
        c = ops_uslp._hdr_cls(p["trunc"])

        def d(b):
            x = c.unpack(b)
            return x.len(), x.pack()
        return (ops_uslp.mk_hdr(p).pack() if build else None), d
    if k == "pdu":
        c = pdu_class(p["kind"])

        def d(b):
            x = c.unpack(b)
            return x.packet_len, x.pack()
        return (mk_pdu(p["kind"], p["cfg"], p["p"])[0].pack() if build else None), d
    raise ValueError(k)


def op_stream_split(a):
    def run():
        built = [_unit(u) for u in a["units"]]
        stream = b"".join(bytes(x[0]) for x in built)
        lens, units, at = [], [], 0
        for _, d in built:
            n, again = d(stream[at:])
            lens.append(int(n))
            units.append(octs(again))
            at += int(n)
        if at != len(stream):
            lens.append({"left": len(stream) - at})
        return {"lens": lens, "units": units}
    return outcome(run)


# ---------------------------------------------------------------------------------------
def _entry(ep, par):
    """The public decode entry point named ep as a callable on bytes."""
    from spacepackets.ccsds import spacepacket as SP
    if ep == "sph":
        return SP.SpacePacketHeader.unpack
    if ep == "sp.apid":
        return SP.get_apid_from_raw_space_packet
    if ep == "tc":
        from spacepackets.ecss.tc import PusTc
        return PusTc.unpack
    if ep == "tcsh":
        from spacepackets.ecss.tc import PusTcDataFieldHeader
        return PusTcDataFieldHeader.unpack
    if ep in ("tm", "srv17", "tmsh", "tm.svc"):
        from spacepackets.ecss.tm import PusTm, PusTmSecondaryHeader
        from spacepackets.ecss.pus_17_test import Service17Tm
        if ep == "tm.svc":
            return lambda b: PusTm.service_from_bytes(bytearray(b))
        c = {"tm": PusTm, "srv17": Service17Tm, "tmsh": PusTmSecondaryHeader}[ep]
        return lambda b: c.unpack(b, par["tslen"])
    if ep == "srv1":
        from spacepackets.ecss import pus_1_verification as S
        return lambda b: S.Service1Tm.unpack(b, ops_srv1.unpack_params(par["tslen"], par["stepw"], par["errw"]))
    if ep == "reqid":
        from spacepackets.ecss.req_id import RequestId
        return RequestId.unpack
    if ep == "pfe":
        from spacepackets.ecss.fields import PacketFieldEnum
        return lambda b: PacketFieldEnum.unpack(b, par["pfc"])
    if ep == "fn":
        from spacepackets.ecss.pus_1_verification import FailureNotice
        return lambda b: FailureNotice.unpack(b, par["errw"])
    if ep.startswith("cds"):
        from spacepackets.ccsds.time import CdsShortTimestamp
        if ep == "cds":
            return CdsShortTimestamp.unpack
        if ep == "cds.raw":
            return CdsShortTimestamp.unpack_from_raw
        return lambda b: (CdsShortTimestamp.empty().read_from_raw(b), 1)[1]
    if ep.startswith("bf."):
        from spacepackets import util as U
        if ep == "bf.base":
            return U.UnsignedByteField.from_bytes
        if ep == "bf.gen":
            return lambda b: U.ByteFieldGenerator.from_bytes(par["w"], b)
        c = {1: U.ByteFieldU8.from_u8_bytes, 2: U.ByteFieldU16.from_u16_bytes, 4: U.ByteFieldU32.from_u32_bytes,
             8: U.ByteFieldU64.from_u64_bytes}
        return c[par["w"]]
    if ep == "cfdphdr":
        from spacepackets.cfdp.pdu.header import PduHeader
        return PduHeader.unpack
    if ep == "cfdp.hlen":
        from spacepackets.cfdp.pdu.header import AbstractPduBase
        return AbstractPduBase.header_len_from_raw
    if ep == "fdir":
        from spacepackets.cfdp.pdu.file_directive import FileDirectivePduBase
        return FileDirectivePduBase.unpack
    if ep == "pdu":
        return pdu_class(par["want"]).unpack
    if ep.startswith("fac"):
        from spacepackets.cfdp.pdu.helper import PduFactory
        return {"fac": PduFactory.from_raw, "fac.holder": PduFactory.from_raw_to_holder, "fac.ptype": PduFactory.pdu_type,
                "fac.isdir": PduFactory.is_file_directive, "fac.dtype": lambda b: (PduFactory.pdu_directive_type(b), 1)[1]}[ep]
    if ep == "lv":
        from spacepackets.cfdp.lv import CfdpLv
        return CfdpLv.unpack
    if ep == "tlv":
        from spacepackets.cfdp.tlv import CfdpTlv
        return CfdpTlv.unpack
    if ep.startswith("ctlv."):
        return ctlv_class(par["cls"]).unpack
    if ep == "uslp.hdr":
        from spacepackets.uslp.header import PrimaryHeader
        return PrimaryHeader.unpack
    if ep == "uslp.thdr":
        from spacepackets.uslp.header import TruncatedPrimaryHeader
        return TruncatedPrimaryHeader.unpack
    if ep == "uslp.htype":
        from spacepackets.uslp.header import determine_header_type
        return determine_header_type
    if ep == "uslp.frame":
        from spacepackets.uslp.frame import TransferFrame
        return lambda b: TransferFrame.unpack(b, ops_uslp._ftype(par["mp"]["ftype"]), ops_uslp.mk_props(par["mp"]))
    if ep == "uslp.tfdf":
        from spacepackets.uslp.frame import TransferFrameDataField
        ft = None if par["ftype"] == "none" else ops_uslp._ftype(par["ftype"])
        return lambda b: TransferFrameDataField.unpack(b, bool(par["trunc"]), par["exact"], ft)
    raise ValueError(ep)


def op_sfx_foreign(a):
    """A unit given as octets (possibly something only a foreign implementation produces) followed by a suffix: reported length
    and equality with the decoding of the unit alone."""
    from .core import rxbuf

    def run():
        _, d = _unit(a["u"], build=False)
        unit = bytes(a["octets"])
        n, again = d(rxbuf(unit, a["sfx"]))
        try:
            alone = guarded(lambda: d(unit))
            same = (int(alone[0]), bytes(alone[1])) == (int(n), bytes(again))
        except BaseException as e:  # noqa
            if isinstance(e, (KeyboardInterrupt, SystemExit)):
                raise
            same = False                      # accepted only because something follows
        if a["u"]["k"] == "pdu":
            return {"same": same}             # for complete PDUs the property speaks about the decoded content only
        return {"n": int(n), "same": same}
    return outcome(run)


def op_rob_decode(a):
    def run():
        fn = _entry(a["ep"], a["par"])
        from .core import rxbuf
        r = fn(rxbuf(a["octets"]))          # bytes, bytearray or a read-only window (memoryview)
        if r is None and a["ep"] in ("fac",):
            return {"exc": "value"}       # the factory's documented "not a known directive" answer
        return {"ok": 1}
    return outcome(run)


OPS = {"fault.decode": op_fault_decode, "stream.split": op_stream_split, "rob.decode": op_rob_decode,
       "sfx.foreign": op_sfx_foreign}
