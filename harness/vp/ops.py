"""Registry of abstract operations -> functions executing them on the real library."""
from . import ops_ecss

OPS = {}
OPS.update(ops_ecss.OPS)
import os as _os
for _name in ("ops_time", "ops_cfdp", "ops_uslp", "ops_util", "ops_srv1", "ops_msg", "ops_fault"):
    if _os.path.exists(_os.path.join(_os.path.dirname(__file__), _name + ".py")):
        _m = __import__(f"vp.{_name}", fromlist=["OPS"])
        OPS.update(_m.OPS)


def perform(op, a):
    from . import core
    core.CURRENT[:] = [op, a]
    return OPS[op](a)


def record(op, a):
    """One recorded call: the event logged at the public call's return."""
    from . import core
    core.CURRENT[:] = [op, a]
    return {"op": op, "a": a, "o": OPS[op](a)}
