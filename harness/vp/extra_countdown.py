"""Extra (not tied to a listed property): Countdown.tla replayed on spacepackets.countdown.Countdown over a virtual clock.
usage: bin/extra countdown"""
from __future__ import annotations

import copy
import sys
from datetime import timedelta

from .core import Ctx, canon, short, outcome


def run():
    ctx = Ctx("X01", "quick", 1, "model_checking")
    import spacepackets.countdown as cdm
    clock = {"now": 0}
    cdm.time_ms = lambda: clock["now"]          # virtual clock (run-time patch in the harness process, no source hook)
    edges = {}
    ctx.explore_graph("MC_Countdown", "MC_Countdown.cfg", "countdown", lambda e: edges.setdefault(canon(e["src"]), []).append(e),
                      workers=1, coverage=False)
    inits = [s for s in (edges and {k for k in edges}) if True]
    bad = 0
    n = 0
    # initial states: Countdown(None) and Countdown(timedelta) at the base clock
    starts = []
    for key in edges:
        import json
        st = json.loads(key)
        if st["now"] == 1000 and (st["start"], st["timeout"]) == (0, 0):
            clock["now"] = 1000
            starts.append((key, cdm.Countdown(None)))
        elif st["now"] == 1000 and st["start"] == 1000:
            clock["now"] = 1000
            starts.append((key, cdm.Countdown(timedelta(milliseconds=st["timeout"]))))
    seen = {k for k, _ in starts}
    stack = [(k, o, 1000) for k, o in starts]
    while stack:
        key, real, now = stack.pop()
        for e in edges.get(key, []):
            n += 1
            ev = e["ev"]
            o = copy.deepcopy(real)
            clock["now"] = now
            a = ev["a"]
            obs = None
            if a == "tick":
                clock["now"] = now + ev["d"]
            elif a == "set_timeout":
                o.timeout = timedelta(milliseconds=ev["t"])
            elif a == "start":
                o.start()
            elif a == "reset":
                o.reset(None if ev["t"] < 0 else timedelta(milliseconds=ev["t"]))
            elif a == "time_out":
                o.time_out()
            elif a == "observe":
                obs = {"timed_out": bool(o.timed_out()), "busy": bool(o.busy()),
                       "remaining": round(o.remaining_time() / timedelta(milliseconds=1)), "timeout_ms": int(o.timeout_ms)}
                exp = {k: ev[k] for k in obs}
                if obs != exp:
                    bad += 1
                    print(f"MISMATCH countdown: state {key} expected {exp} observed {obs}")
            post = {"now": clock["now"], "start": int(o._start_time_ms), "timeout": int(o._timeout_ms)}
            if post != e["dst"]:
                bad += 1
                print(f"MISMATCH countdown: {short(ev)} on {key}: spec {short(e['dst'])} code {short(post)}")
                continue
            dk = canon(e["dst"])
            if dk not in seen:
                seen.add(dk)
                stack.append((dk, o, clock["now"]))
    ctx.abort_cleanup()
    print(f"countdown: {n} transitions over {len(seen)} states replayed on the real class, {bad} mismatches")
    return 1 if bad else 0


if __name__ == "__main__":
    sys.exit(run())
