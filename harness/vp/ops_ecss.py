"""Adapters for CCSDS space packets and ECSS PUS TC/TM: perform one abstract operation on
the real library and project the observation into the specification's vocabulary.
Deliberately dumb: attribute reads and constructor calls only."""
from __future__ import annotations

from .core import outcome, octs, after_pack, decoded, live, scramble, rxbuf, owned, enum_arg, assign_grown, side_pack, crc32_twin
from .probe import fresh
from .probe import decode_other, poison, twin


def _hdr_proj(h):
    return {"ver": int(h.ccsds_version), "type": int(h.packet_type), "shf": int(bool(h.sec_header_flag)),
            "apid": int(h.apid), "flags": int(h.seq_flags), "count": int(h.seq_count),
            "dlen": int(h.data_len)}


def _mk_hdr(h, via="ctor"):
    from spacepackets.ccsds.spacepacket import (SpacePacketHeader, PacketType, SequenceFlags, PacketId,
                                                PacketSeqCtrl)
    if via == "composite":
        if (h["apid"] + h["count"] + h["dlen"]) % 2:
            # the composite objects existed before with other values and are brought to the wanted ones through their public
            # attributes (they are plain mutable objects): what they hold now is what must be encoded - or refused
            pid = PacketId(PacketType(1 - h["type"]), not bool(h["shf"]), 0x2AA)
            psc = PacketSeqCtrl(SequenceFlags((h["flags"] + 1) % 4), 0x1555)
            pid.raw(), psc.raw()
            pid.ptype, pid.sec_header_flag, pid.apid = PacketType(h["type"]), bool(h["shf"]), h["apid"]
            psc.seq_flags, psc.seq_count = SequenceFlags(h["flags"]), h["count"]
            res = SpacePacketHeader.from_composite_fields(pid, psc, h["dlen"], h["ver"])
            # the caller builds the next header from the SAME composite objects and then changes that one through its setters:
            # the first header keeps its own values
            try:
                sib = SpacePacketHeader.from_composite_fields(pid, psc, h["dlen"], h["ver"])
                sib.apid = (h["apid"] + 1) % 2048
                sib.seq_count = (h["count"] + 1) % 16384
                sib.pack()
            except Exception:  # noqa
                pass
            return res
        return SpacePacketHeader.from_composite_fields(
            PacketId(PacketType(h["type"]), bool(h["shf"]), h["apid"]),
            PacketSeqCtrl(SequenceFlags(h["flags"]), h["count"]), h["dlen"], h["ver"])
    if via in ("mutate", "setters"):
        # a history: another header whose views are used once (pack, ==, packet_len), then brought to the wanted values -
        # "mutate": through the PacketId / PacketSeqCtrl objects the header hands out; "setters": through the header's setters
        o = SpacePacketHeader(packet_type=PacketType(1 - h["type"]), apid=(h["apid"] + 1) % 2048,
                              seq_count=(h["count"] + 1) % 16384, data_len=(h["dlen"] + 1) % 65536,
                              sec_header_flag=not bool(h["shf"]), seq_flags=SequenceFlags((h["flags"] + 1) % 4),
                              ccsds_version=h["ver"])            # the version has no setter
        o.pack(), o == o, o.packet_len, o.packet_id.raw(), o.packet_seq_control.raw()
        if via == "mutate":
            o.packet_id.apid = h["apid"]
            o.packet_id.ptype = PacketType(h["type"])
            o.packet_id.sec_header_flag = bool(h["shf"])
            o.packet_seq_control.seq_count = h["count"]
            o.packet_seq_control.seq_flags = SequenceFlags(h["flags"])
        else:
            o.apid = h["apid"]
            o.packet_type = PacketType(h["type"])
            o.sec_header_flag = bool(h["shf"])
            o.seq_count = h["count"]
            o.seq_flags = SequenceFlags(h["flags"])
        o.data_len = h["dlen"]
        return o
    # the constructor under either of its public names, arguments by keyword or by position
    k = (h["apid"] + h["count"] + h["dlen"] + h["ver"]) % 3
    if k == 1:
        import spacepackets
        return spacepackets.SpHeader(packet_type=PacketType(h["type"]), apid=h["apid"], seq_count=h["count"],
                                     data_len=h["dlen"], sec_header_flag=bool(h["shf"]),
                                     seq_flags=SequenceFlags(h["flags"]), ccsds_version=h["ver"])
    if k == 2:
        from spacepackets.ccsds import SpHeader
        return SpHeader(PacketType(h["type"]), h["apid"], h["count"], h["dlen"], bool(h["shf"]), SequenceFlags(h["flags"]), h["ver"])
    K = (h["apid"], h["count"], h["dlen"])
    return SpacePacketHeader(packet_type=enum_arg(PacketType, h["type"], K), apid=h["apid"], seq_count=h["count"],
                             data_len=h["dlen"], sec_header_flag=bool(h["shf"]),
                             seq_flags=enum_arg(SequenceFlags, h["flags"], K), ccsds_version=h["ver"])


def tc_proj(tc):
    return {"h": _hdr_proj(tc.sp_header), "ack": int(tc.pus_tc_sec_header.ack_flags),
            "service": int(tc.service), "subservice": int(tc.subservice), "source": int(tc.source_id),
            "data": octs(tc.app_data)}


def tm_proj(tm):
    sh = tm.pus_tm_sec_header
    return {"h": _hdr_proj(tm.sp_header), "timeref": int(sh.spacecraft_time_ref), "service": int(tm.service),
            "subservice": int(tm.subservice), "msgcnt": int(sh.message_counter), "dest": int(sh.dest_id),
            "stamp": octs(tm.timestamp), "data": octs(tm.source_data)}


def mk_tc(p, via="ctor"):
    from spacepackets.ecss.tc import PusTc, PusTcDataFieldHeader
    from spacepackets.ccsds.spacepacket import SpacePacketHeader, PacketType
    data = bytes(p["data"])
    if via == "empty":
        # the public route PusTc.empty() + setters; an earlier empty() object is changed first (they must not share state)
        def fill(t, q):
            t.apid, t.seq_count, t.source_id, t.app_data = q["apid"], q["seq"], q["source"], bytes(q["data"])
            t.pus_tc_sec_header.service, t.pus_tc_sec_header.subservice = q["service"], q["subservice"]
            t.pus_tc_sec_header.ack_flags = q["ack"]
            return t
        fill(PusTc.empty(), {"apid": (p["apid"] + 5) % 2048, "seq": (p["seq"] + 5) % 16384, "source": (p["source"] + 5) % 65536,
                             "data": list(data) + [9, 9, 9], "service": (p["service"] + 5) % 256,
                             "subservice": (p["subservice"] + 5) % 256, "ack": (p["ack"] + 5) % 16}).pack()
        t = fill(PusTc.empty(), p)
        # ... and a later one is changed afterwards: the object under test must not follow
        fill(PusTc.empty(), {"apid": (p["apid"] + 9) % 2048, "seq": (p["seq"] + 9) % 16384, "source": (p["source"] + 9) % 65536,
                             "data": [7] + list(data), "service": (p["service"] + 9) % 256,
                             "subservice": (p["subservice"] + 9) % 256, "ack": (p["ack"] + 9) % 16}).pack()
        return t
    if via == "bytearray":        # the caller keeps its application data in a bytearray (e.g. a receive buffer)
        return PusTc(service=p["service"], subservice=p["subservice"], apid=p["apid"], app_data=bytearray(data),
                     seq_count=p["seq"], source_id=p["source"], ack_flags=p["ack"])
    if via == "sph":
        if (p["apid"] + p["seq"]) % 2:
            # the header comes from composite objects that the caller uses again for the NEXT telecommand, which is then
            # re-addressed through its setters: this telecommand keeps its own APID and sequence count
            from spacepackets.ccsds.spacepacket import PacketId, PacketSeqCtrl, SequenceFlags
            pid, psc = PacketId(PacketType.TC, True, p["apid"]), PacketSeqCtrl(SequenceFlags.UNSEGMENTED, p["seq"])
            tc = PusTc.from_sp_header(SpacePacketHeader.from_composite_fields(pid, psc, 0), service=p["service"],
                                      subservice=p["subservice"], app_data=data, source_id=p["source"], ack_flags=p["ack"])
            nxt = PusTc.from_sp_header(SpacePacketHeader.from_composite_fields(pid, psc, 0), service=p["service"],
                                       subservice=p["subservice"], app_data=data, source_id=p["source"], ack_flags=p["ack"])
            nxt.apid = (p["apid"] + 1) % 2048
            nxt.seq_count = (p["seq"] + 1) % 16384
            nxt.pack()
            return tc
        sph = SpacePacketHeader(packet_type=PacketType.TM, apid=p["apid"], seq_count=p["seq"], data_len=0)
        return PusTc.from_sp_header(sph, service=p["service"], subservice=p["subservice"], app_data=data,
                                    source_id=p["source"], ack_flags=p["ack"])
    if via == "composite":
        sph = SpacePacketHeader(packet_type=PacketType.TC, apid=p["apid"], seq_count=p["seq"],
                                data_len=5 + len(data) + 1, sec_header_flag=True)
        return PusTc.from_composite_fields(
            sph, PusTcDataFieldHeader(p["service"], p["subservice"], p["source"], p["ack"]), data)
    if via == "setter":
        # a history instead of a constructor call: other values first, one pack() (which may cache a CRC / a length),
        # then the public setters bring the object to the wanted values
        twin = crc32_twin(data) if (p["apid"] + len(data)) % 2 else None
        if twin is not None:
            # earlier content of the SAME length with the same CRC-32, everything else already final; the buffer pack()
            # returned is then edited by the caller to what the next packet will be (its transmit buffer), and the same
            # change is made through the setter: the checksum must be that of the new content
            tc = PusTc(service=p["service"], subservice=p["subservice"], apid=p["apid"], app_data=twin,
                       seq_count=p["seq"], source_id=p["source"], ack_flags=p["ack"])
            sent = tc.pack()
            sent[11:11 + len(data)] = data
            tc.app_data = data
            return tc
        tc = PusTc(service=p["service"], subservice=p["subservice"], apid=(p["apid"] + 1) % 2048, app_data=data + b"\x55",
                   seq_count=(p["seq"] + 1) % 16384, source_id=(p["source"] + 1) % 65536, ack_flags=p["ack"])
        tc.pack()
        counted = (p["seq"] + p["source"]) % 16 == 3
        if counted:
            # exactly 256 / 65 536 writes to a secondary-header field between two serialisations, the last one being the wanted
            # value (and no further write to it): a change counter that wraps must not call that "unchanged"
            n = 65536 if (p["seq"] + p["apid"]) % 2 else 256
            for i in range(n - 1):
                tc.pus_tc_sec_header.source_id = (p["source"] + 2 + i) % 65536
            tc.pus_tc_sec_header.source_id = p["source"]
        view = tc.to_space_packet() if not counted else None          # a generic view handed out BEFORE the changes ...
        tc.apid = p["apid"]
        tc.seq_count = p["seq"]
        if not counted:
            tc.source_id = p["source"]
        assign_grown(tc, "app_data", data)
        try:
            if view is not None:
                view.pack()                  # ... and used after them: it is a view, the telecommand is not its scratch pad
        except Exception:  # noqa
            pass
        return tc
    if (p["apid"] + p["seq"] + len(data)) % 3 == 1:
        from spacepackets.ecss import PusTelecommand            # the constructor under its other public name
        return PusTelecommand(service=p["service"], subservice=p["subservice"], apid=p["apid"], app_data=data,
                              seq_count=p["seq"], source_id=p["source"], ack_flags=p["ack"])
    return PusTc(service=p["service"], subservice=p["subservice"], apid=p["apid"], app_data=data,
                 seq_count=p["seq"], source_id=p["source"], ack_flags=p["ack"])


def mk_tm(p, via="tm"):
    from spacepackets.ecss.tm import PusTm
    from spacepackets.ecss.pus_17_test import Service17Tm
    if via == "srv17":
        assert p["service"] == 17 and p["msgcnt"] == 0
        return Service17Tm(apid=p["apid"], subservice=p["subservice"], timestamp=bytes(p["stamp"]),
                           ssc=p["seq"], source_data=bytes(p["data"]), packet_version=p["ver"],
                           space_time_ref=p["timeref"], destination_id=p["dest"])
    if via == "bytearray":
        return PusTm(service=p["service"], subservice=p["subservice"], timestamp=bytearray(p["stamp"]),
                     source_data=bytearray(p["data"]), apid=p["apid"], seq_count=p["seq"],
                     message_counter=p["msgcnt"], space_time_ref=p["timeref"], destination_id=p["dest"],
                     packet_version=p["ver"])
    if via == "decoded-setter":
        # the object comes out of unpack (its time stamp length is whatever was handed to the decoder), then the source
        # data setter is used
        tm0 = PusTm(service=p["service"], subservice=p["subservice"], timestamp=bytes(p["stamp"]),
                    source_data=bytes(p["data"]) + b"\x55\x55\x55", apid=p["apid"], seq_count=p["seq"],
                    message_counter=p["msgcnt"], space_time_ref=p["timeref"], destination_id=p["dest"],
                    packet_version=p["ver"])
        tm = PusTm.unpack(bytes(tm0.pack()), len(p["stamp"]))
        assign_grown(tm, "tm_data", p["data"])
        return tm
    if via == "setter":
        twin = crc32_twin(p["data"]) if (p["apid"] + len(p["data"])) % 2 else None
        if twin is not None:
            tm = PusTm(service=p["service"], subservice=p["subservice"], timestamp=bytes(p["stamp"]),
                       source_data=twin, apid=p["apid"], seq_count=p["seq"],
                       message_counter=p["msgcnt"], space_time_ref=p["timeref"], destination_id=p["dest"],
                       packet_version=p["ver"])
            sent = tm.pack()
            at = 13 + len(p["stamp"])
            sent[at:at + len(p["data"])] = bytes(p["data"])
            tm.tm_data = bytes(p["data"])
            return tm
        counted = (p["seq"] + p["msgcnt"]) % 16 == 3
        tm = PusTm(service=p["service"], subservice=p["subservice"], timestamp=bytes(p["stamp"]),
                   source_data=bytes(p["data"]) + b"\x55\x55", apid=(p["apid"] + 1) % 2048, seq_count=p["seq"],
                   message_counter=(p["msgcnt"] + 1) % 65536 if counted else p["msgcnt"], space_time_ref=p["timeref"],
                   destination_id=p["dest"], packet_version=p["ver"])
        tm.pack()
        if counted:
            # a long-lived object: exactly 256 / 65 536 further writes to a header field between two pack() calls (a counter
            # bumped once per packet), the last one being the wanted value - a change counter that wraps must not call that
            # "unchanged"
            n = 65536 if (p["seq"] + p["dest"]) % 2 else 256
            sec = tm.pus_tm_sec_header
            for i in range(n - 1):
                sec.message_counter = (p["msgcnt"] + 1 + i) % 65536
            sec.message_counter = p["msgcnt"]
        view = tm.to_space_packet() if not counted else None
        tm.apid = p["apid"]
        assign_grown(tm, "tm_data", p["data"])
        try:
            if view is not None:
                view.pack()
        except Exception:  # noqa
            pass
        return tm
    if (p["apid"] + p["seq"] + len(p["data"])) % 3 == 2 and p["ver"] == 0:
        # the convenience constructor from ready-made headers (space packet header with the right data length, secondary
        # header with whatever time stamp length)
        from spacepackets.ecss.tm import PusTmSecondaryHeader
        from spacepackets.ccsds.spacepacket import SpacePacketHeader, PacketType
        n = 7 + len(p["stamp"]) + len(p["data"]) + 2
        sph = SpacePacketHeader(packet_type=PacketType.TM, apid=p["apid"], seq_count=p["seq"], data_len=n - 1, sec_header_flag=True)
        sec = PusTmSecondaryHeader(p["service"], p["subservice"], bytes(p["stamp"]), p["msgcnt"], p["dest"], p["timeref"])
        return PusTm.from_composite_fields(sph, sec, bytes(p["data"]))
    cls = PusTm
    if (p["apid"] + p["seq"] + len(p["data"])) % 3 == 1:
        from spacepackets.ecss import PusTelemetry              # the constructor under its other public name
        cls = PusTelemetry
    return cls(service=p["service"], subservice=p["subservice"], timestamp=bytes(p["stamp"]),
               source_data=bytes(p["data"]), apid=p["apid"], seq_count=p["seq"],
               message_counter=p["msgcnt"], space_time_ref=p["timeref"], destination_id=p["dest"],
               packet_version=p["ver"])


def _inner_tm(x):
    return x.pus_tm if hasattr(x, "pus_tm") else x


# ---------------------------------------------------------------------------------------
def op_sph_build(a):
    from spacepackets.ccsds import spacepacket as sp
    h = a["h"]

    def run():
        o = _mk_hdr(h, a.get("via", "ctor"))
        raw = owned(o.pack)
        back = sp.SpacePacketHeader.unpack(bytes(raw))
        b1, b2 = sp.get_space_packet_id_bytes(sp.PacketType(h["type"]), bool(h["shf"]), h["apid"], h["ver"])
        pid2 = sp.get_sp_packet_id_raw(sp.PacketType(h["type"]), bool(h["shf"]), h["apid"])
        psc2 = sp.get_sp_psc_raw(sp.SequenceFlags(h["flags"]), h["count"])
        pid, psc = o.packet_id.raw(), o.packet_seq_control.raw()
        return {"octets": octs(raw), "plen": o.packet_len, "hlen": o.header_len,
                "pid": pid if pid == pid2 else [pid, pid2], "psc": psc if psc == psc2 else [psc, psc2],
                "idb": [b1, b2], "tot": sp.get_total_space_packet_len_from_len_field(h["dlen"]),
                "eq": bool(o == back) and bool(back == o)}
    return outcome(run)


def op_sph_unpack(a):
    from spacepackets.ccsds.spacepacket import SpacePacketHeader

    def run():
        o = decoded(lambda: fresh(lambda: SpacePacketHeader.unpack(bytes(a["octets"]))))
        return {"h": _hdr_proj(o), "plen": o.packet_len, "repack": octs(o.pack()),
                "pid": o.packet_id.raw(), "psc": o.packet_seq_control.raw()}
    return outcome(run)


def op_pid_from_raw(a):
    from spacepackets.ccsds.spacepacket import PacketId

    def run():
        p = fresh(lambda: PacketId.from_raw(a["raw"]))
        return {"p": {"type": int(p.ptype), "shf": int(bool(p.sec_header_flag)), "apid": int(p.apid)},
                "raw": p.raw()}
    return outcome(run)


def op_psc_from_raw(a):
    from spacepackets.ccsds.spacepacket import PacketSeqCtrl

    def run():
        p = fresh(lambda: PacketSeqCtrl.from_raw(a["raw"]))
        return {"p": {"flags": int(p.seq_flags), "count": int(p.seq_count)}, "raw": p.raw()}
    return outcome(run)


def op_sp_apid_raw(a):
    from spacepackets.ccsds.spacepacket import get_apid_from_raw_space_packet
    return outcome(lambda: {"apid": get_apid_from_raw_space_packet(bytes(a["octets"]))})


def op_sp_pack(a):
    from spacepackets.ccsds.spacepacket import SpacePacket

    def run():
        sec = bytes(a["sec"][0]) if a["sec"] else None
        data = bytes(a["data"][0]) if a["data"] else None
        return {"octets": octs(SpacePacket(_mk_hdr(a["h"]), sec, data).pack())}
    return outcome(run)


def op_tc_rt(a):
    from spacepackets.ecss.tc import PusTc
    from spacepackets.ecss import check_pus_crc

    def run():
        poison("tc")

        def _mut(t):
            t.pack()
            t.apid, t.seq_count, t.source_id = (t.apid + 1) % 2048, (t.seq_count + 1) % 16384, (t.source_id + 1) % 65536
            t.app_data = bytes(t.app_data) + b"\x77"
            t.pus_tc_sec_header.service = (t.service + 1) % 256
        twin(lambda: mk_tc(a["p"], a.get("via", "ctor")), _mut)
        tc = mk_tc(a["p"], a.get("via", "ctor"))
        view_first = (a["p"]["seq"] + a["p"]["service"]) % 2 == 0
        # the generic view before pack() (it must not depend on what an earlier pack() left behind) - or, for every other
        # input, pack() first (the view re-computes the checksum and would repair what a history left in pack()'s own state)
        sp = tc.to_space_packet().pack() if view_first else None
        raw = owned(tc.pack)
        plen = tc.packet_len
        if sp is None:
            sp = tc.to_space_packet().pack()
        if bytes(tc.to_space_packet().pack()) != bytes(sp):
            sp = b"view changes across pack()"
        return after_pack(raw, lambda: rest(tc, raw, plen, sp))

    def rest(tc, raw, plen, sp):
        buf = live(bytearray(bytes(raw) + bytes(a["sfx"]))) if a.get("via") == "bytearray" else rxbuf(raw, a["sfx"])
        dec = fresh(lambda: PusTc.unpack(buf))
        if not isinstance(buf, bytes):
            dec.to_space_packet().pack()          # the view of an object decoded from a receive buffer / a window into one
        scramble()                                    # the receive buffer is re-used: the decoded object owns its data
        keep = octs(dec.pack(recalc_crc=False))       # before any recalculating pack(): the CRC field as decoded
        if a.get("via") == "bytearray":
            dec.to_space_packet().pack()          # the view of a decoded object must leave it as it is
        decode_other("tc", PusTc.unpack)
        out = {"octets": octs(raw), "plen": plen, "sp": octs(sp), "crcok": bool(check_pus_crc(bytes(raw))),
               "dec": tc_proj(dec), "dplen": dec.packet_len, "eq": bool(dec == tc) and bool(tc == dec),
               "keep": keep, "repack": octs(dec.pack())}
        # afterwards the header objects the telecommand hands out are changed in place (they are public, mutable objects): what
        # it packs then is the encoding of what its own getters report (universal law, recorded as a side event)
        try:
            tc.sp_header.seq_count = (tc.sp_header.seq_count + 1) % 16384
            tc.sp_header.packet_id.apid = (tc.apid + 3) % 2048
            tc.pus_tc_sec_header.source_id = (tc.source_id + 1) % 65536
            tc.pus_tc_sec_header.subservice = (tc.subservice + 1) % 256
        except Exception:  # noqa
            pass
        side_pack("tc", tc_proj, tc)
        return out
    return outcome(run)


def op_tc_unpack(a):
    from spacepackets.ecss.tc import PusTc

    def run():
        dec = decoded(lambda: fresh(lambda: PusTc.unpack(bytes(a["octets"]))))
        keep = octs(dec.pack(recalc_crc=False))
        return {"v": tc_proj(dec), "plen": dec.packet_len, "keep": keep, "repack": octs(dec.pack())}
    return outcome(run)


def op_tcsh_unpack(a):
    from spacepackets.ecss.tc import PusTcDataFieldHeader

    def run():
        d = PusTcDataFieldHeader.unpack(bytes(a["octets"]))
        return {"v": {"ack": int(d.ack_flags), "service": int(d.service), "subservice": int(d.subservice),
                      "source": int(d.source_id)}}
    return outcome(run)


def op_tm_rt(a):
    from spacepackets.ecss.tm import PusTm, PUS_TM_TIMESTAMP_OFFSET
    from spacepackets.ecss.pus_17_test import Service17Tm
    from spacepackets.ecss import check_pus_crc

    def run():
        via = a.get("via", "tm")
        poison("tm")

        def _mut(t):
            t = _inner_tm(t)
            t.pack()
            t.apid = (t.apid + 1) % 2048
            t.tm_data = bytes(t.tm_data) + b"\x77"
            t.pus_tm_sec_header.dest_id = (t.pus_tm_sec_header.dest_id + 1) % 65536
            t.pus_tm_sec_header.message_counter = (t.pus_tm_sec_header.message_counter + 1) % 65536
        twin(lambda: mk_tm(a["p"], via), _mut)
        tm = mk_tm(a["p"], via)
        view_first = (a["p"]["seq"] + a["p"]["service"]) % 2 == 0
        sp = _inner_tm(tm).to_space_packet().pack() if view_first else None
        raw = owned(tm.pack)
        plen = _inner_tm(tm).packet_len
        if sp is None:
            sp = _inner_tm(tm).to_space_packet().pack()
        if bytes(_inner_tm(tm).to_space_packet().pack()) != bytes(sp):
            sp = b"view changes across pack()"
        return after_pack(raw, lambda: rest(tm, raw, plen, sp, via))

    def rest(tm, raw, plen, sp, via):
        cls = Service17Tm if via == "srv17" else PusTm
        tsl = len(a["p"]["stamp"])
        buf = live(bytearray(bytes(raw) + bytes(a["sfx"]))) if via == "bytearray" else rxbuf(raw, a["sfx"])
        dec = fresh(lambda: cls.unpack(buf, tsl))
        if not isinstance(buf, bytes):
            _inner_tm(dec).to_space_packet().pack()
        scramble()
        keep = octs(_inner_tm(dec).pack(recalc_crc=False))      # first: the CRC field exactly as decoded
        if via == "bytearray":
            _inner_tm(dec).to_space_packet().pack()
        decode_other("srv17" if via == "srv17" else "tm", lambda b: cls.unpack(b, 7))
        eq = bool(_inner_tm(dec) == _inner_tm(tm)) and bool(_inner_tm(tm) == _inner_tm(dec))
        out = {"keep": keep, "octets": octs(raw), "plen": plen, "sp": octs(sp), "crcok": bool(check_pus_crc(bytes(raw))),
               "dec": tm_proj(_inner_tm(dec)), "dplen": _inner_tm(dec).packet_len, "eq": eq,
               "repack": octs(dec.pack()),
               "stampat": octs(raw[PUS_TM_TIMESTAMP_OFFSET:PUS_TM_TIMESTAMP_OFFSET + tsl])}
        try:
            t = _inner_tm(tm)
            t.sp_header.seq_count = (t.sp_header.seq_count + 1) % 16384
            t.sp_header.packet_id.apid = (t.apid + 3) % 2048
            t.pus_tm_sec_header.message_counter = (t.pus_tm_sec_header.message_counter + 1) % 65536
            t.pus_tm_sec_header.dest_id = (t.pus_tm_sec_header.dest_id + 1) % 65536
            if via != "srv17":
                side_pack("tm", tm_proj, t)
        except Exception:  # noqa
            pass
        return out
    return outcome(run)


def op_tm_unpack(a):
    from spacepackets.ecss.tm import PusTm
    from spacepackets.ecss.pus_17_test import Service17Tm

    def run():
        cls = Service17Tm if a.get("via") == "srv17" else PusTm
        dec = decoded(lambda: fresh(lambda: cls.unpack(bytes(a["octets"]), a["tslen"])))
        keep = octs(_inner_tm(dec).pack(recalc_crc=False))
        return {"v": tm_proj(_inner_tm(dec)), "plen": _inner_tm(dec).packet_len, "keep": keep, "repack": octs(dec.pack())}
    return outcome(run)


def op_pus_crc(a):
    from spacepackets.ecss import check_pus_crc
    return outcome(lambda: {"ok": bool(check_pus_crc(bytes(a["octets"])))})


def op_tm_svc_raw(a):
    from spacepackets.ecss.tm import PusTm
    return outcome(lambda: {"service": int(PusTm.service_from_bytes(bytearray(a["octets"])))})


OPS = {
    "sph.build": op_sph_build, "sph.unpack": op_sph_unpack, "pid.from_raw": op_pid_from_raw,
    "psc.from_raw": op_psc_from_raw, "sp.apid_raw": op_sp_apid_raw, "sp.pack": op_sp_pack,
    "tc.rt": op_tc_rt, "tc.unpack": op_tc_unpack, "tcsh.unpack": op_tcsh_unpack,
    "tm.rt": op_tm_rt, "tm.unpack": op_tm_unpack, "pus.crc": op_pus_crc, "tm.svc_raw": op_tm_svc_raw,
}
