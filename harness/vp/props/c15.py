"""C15 - request IDs and service-1 verification reports identify the telecommand exactly."""
from ..ops import perform, record

RULE = ("A: TLC grid - 2 048 request IDs x suffixes x construction routes (constructor, from_sp_header, from_pus_tc), "
        "equality pairs differing in exactly one field; service-1 reports for all 8 subservices x all step-ID / failure "
        "options (matching sets must round-trip, mismatching sets must be refused) x widths 1/2/4/8 x timestamp lengths x "
        "routes (constructor, create_* helpers for real telecommands, from_tm); every strict prefix of sample reports; raw "
        "reports with subservice 0..10/255 and source data of every critical length x decoder widths; enumerated fields. "
        "B: recorded calls validated by TLC: RequestId.unpack on all 65 536 values of each 16-bit half, random round "
        "trips / equality pairs / reports with random widths, values over the full 64-bit range and failure data, random "
        "and mutated raw reports. distinct = distinct (op, args).")


def classify(e):
    a, op = e["a"], e["op"]
    if op == "srv1.rt":
        p = a["p"]
        return f"sub={p['sub']},step={int(bool(p['step']))},fail={int(bool(p['fail']))},via={a.get('via')},sfx={int(bool(a['sfx']))}"
    if op == "srv1.unpack":
        return f"stepw={a['stepw']},errw={a['errw']}"
    if op == "reqid.rt":
        return f"via={a.get('via')}"
    return ""


def rnd_req(rng):
    return {"ver": rng.randrange(8), "type": rng.randrange(2), "shf": rng.randrange(2), "apid": rng.randrange(2048),
            "flags": rng.randrange(4), "count": rng.randrange(16384)}


def rnd_enum(rng, key="v"):
    w = rng.choice([1, 2, 4, 8])
    v = rng.choice([[0] * w, [255] * w, [rng.randrange(256) for _ in range(w)]])
    return {"w": w, key: v}


def rnd_report(rng, valid=True):
    sub = rng.randrange(1, 9)
    step = [rnd_enum(rng)] if sub in (5, 6) else []
    fail = []
    if sub % 2 == 0:
        f = rnd_enum(rng, "code")
        f["data"] = [rng.randrange(256) for _ in range(rng.choice([0, 0, 1, 4, 30]))]
        fail = [f]
        if rng.random() < 0.15:
            f["data"] = "echo"            # filled in below: the failure data echoes the start of the rejected telecommand
    if not valid:
        if rng.random() < 0.5:
            step = [] if step else [rnd_enum(rng)]
        else:
            fail = [] if fail else [{"w": 1, "code": [3], "data": []}]
    req = rnd_req(rng)
    for f in fail:
        if f.get("data") == "echo":
            w0 = (req["ver"] << 13) | (req["type"] << 12) | (req["shf"] << 11) | req["apid"]
            w1 = (req["flags"] << 14) | req["count"]
            f["data"] = [w0 >> 8, w0 & 255, w1 >> 8, w1 & 255] + [rng.randrange(256) for _ in range(rng.choice([0, 1, 9]))]
    return {"apid": rng.choice([0, 2047, rng.randrange(2048)]), "seq": rng.randrange(16384), "ver": rng.randrange(8),
            "timeref": rng.randrange(16), "dest": rng.randrange(65536),
            "stamp": [rng.randrange(256) for _ in range(rng.choice([0, 7, 7, 3, 16]))], "sub": sub, "req": req,
            "step": step, "fail": fail}


def events(ctx):
    rng = ctx.rng
    from ..core import source_constants
    for c in source_constants():
        yield record("reqid.unpack", {"octets": list(c) + [0x18, 0x42, 0xC0, 0x15]})
        yield record("reqid.unpack", {"octets": (list(c) + [0x18, 0x42, 0xC0, 0x15][len(c):])[:4] + [9, 9]})
    # every value of each 16-bit half of the request ID
    for hi in range(65536):
        lo = rng.randrange(65536)
        yield record("reqid.unpack", {"octets": [hi >> 8, hi & 255, lo >> 8, lo & 255] + ([7] if hi % 3 == 0 else [])})
    for lo in range(65536):
        hi = rng.randrange(65536)
        yield record("reqid.unpack", {"octets": [hi >> 8, hi & 255, lo >> 8, lo & 255]})
    for _ in range(ctx.q(12000, 800000)):
        r = rnd_req(rng)
        yield record("reqid.rt", {"r": r, "sfx": [rng.randrange(256)] * rng.randrange(3), "via": rng.choice(["ctor", "sph", "mutate"])})
        r2 = dict(r)
        if rng.random() < 0.7:
            f = rng.choice(list(r2))
            r2[f] = rnd_req(rng)[f]
        else:
            r2 = rnd_req(rng)
        yield record("reqid.eq", {"r1": r, "r2": r2})
    for _ in range(ctx.q(15000, 800000)):
        p = rnd_report(rng, valid=rng.random() < 0.9)
        via = rng.choice(["ctor", "ctor", "from_tm"])
        yield record("srv1.rt", {"p": p, "tc": [], "via": via, "sfx": [rng.randrange(256)] * rng.choice([0, 0, 2])})
    for _ in range(ctx.q(5000, 200000)):
        p = rnd_report(rng)
        p.update({"seq": 0, "ver": 0, "timeref": 0, "dest": 0})
        tc = {"apid": rng.randrange(2048), "seq": rng.randrange(16384), "ack": rng.randrange(16), "service": rng.randrange(256),
              "subservice": rng.randrange(256), "source": rng.randrange(65536), "data": [rng.randrange(256)] * rng.randrange(4)}
        yield record("srv1.rt", {"p": p, "tc": [tc], "via": "create", "sfx": []})
    # raw reports: packed by the library, then cut / mutated / decoded with other widths
    from ..ops_srv1 import mk_srv1
    for _ in range(ctx.q(12000, 600000)):
        p = rnd_report(rng)
        raw = list(mk_srv1({"p": p, "via": "ctor"}).pack())
        sw = p["step"][0]["w"] if p["step"] else rng.choice([1, 2, 4, 8])
        ew = p["fail"][0]["w"] if p["fail"] else rng.choice([1, 2, 4, 8])
        k = rng.randrange(5)
        if k == 0:
            raw = raw[:rng.randrange(len(raw) + 1)]
        elif k == 1:
            raw[rng.randrange(len(raw))] = rng.randrange(256)
        elif k == 2:
            sw, ew = rng.choice([1, 2, 4, 8]), rng.choice([1, 2, 4, 8])
        elif k == 3:
            raw = raw + [rng.randrange(256) for _ in range(rng.randrange(1, 6))]
        yield record("srv1.unpack", {"octets": raw, "tslen": len(p["stamp"]), "stepw": sw, "errw": ew})
    for _ in range(ctx.q(1500, 50000)):
        w = rng.choice([1, 2, 4, 8])
        yield record("pfe.rt", {"pfc": 8 * w, "v": [rng.randrange(256) for _ in range(w)]})
        b = [rng.randrange(256) for _ in range(rng.randrange(12))]
        yield record("pfe.unpack", {"pfc": rng.choice([8, 16, 32, 64, 0, 24, 128]), "octets": b})
        yield record("fn.unpack", {"errw": rng.choice([1, 2, 4, 8]), "octets": b})


def run(ctx):
    ctx.rule = RULE
    ctx.assumptions = ["adapters vp/ops_srv1.py build/project by constructor calls and attribute reads only",
                       "TLC evaluates Pus1.tla (request ID = first four header octets; report layout of ECSS-E-ST-70-41C 8.1)",
                       "a decoder may or may not insist on service type 1; only subservices 1..8 are judged for parameter refusal",
                       "hash inequality of unequal request IDs is not demanded"]
    ctx.replay_vectors("MC_Codec", "MC_Codec.cfg", perform, "grid", classify, consts='CONSTANT Area = "pus1"',
                       need_actions=("PickVector",))
    ctx.validate_events(events(ctx), "calls", classify, shard=6000)
    from .. import repotests
    repotests.codec_stage(ctx, "C15")       # the calls the repository's own tests make, judged by the specification
    ctx.exhaustive = False
    ctx.extra["exhaustive_fields"] = "RequestId.unpack: all 2^16 values of octets 1-2 and all 2^16 values of octets 3-4"
