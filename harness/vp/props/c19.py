"""C19 - sequence counters count modulo 2^width, stay in range and survive restarts."""
from __future__ import annotations

import copy
import os
from pathlib import Path

from ..core import canon, short, outcome, family

RULE = ("A: TLC model-checks SeqCount.tla for widths 1..4 with and without injected file faults (every interleaving of "
        "get_and_increment on the file-backed and the in-memory provider, current(), restart = new instance on the same file, "
        "delete, scribble(14 contents)) against Inv_Range / Inv_FileValid / Act_Successor* / Act_RestartKeeps / "
        "Act_FirstIsZero / Act_Rejects; every transition is executed on real SeqCountProvider / FileSeqCountProvider "
        "objects and a real file (depth-first along real paths), comparing the returned value or error family, the file "
        "content and the in-memory provider's next value. B: histories longer than 2^W calls for W = 14 "
        "(PusFileSeqCountProvider), 8, 16 and small widths with restarts at random inter-call points, file faults and changes "
        "of the width through the public max_bit_width setter, "
        "validated by Trace_SeqCount. distinct = distinct (width, pre-state, call) edges + distinct recorded events.")

MISSING = {"m": True}


class Real:
    """A real file plus real provider objects."""

    def __init__(self, ctx, w, pus=False):
        self.w, self.pus = w, pus
        self.path = Path(ctx.scratch) / f"seq-{w}-{id(self)}.txt"
        self.inst = None

    def set_file(self, f):
        if "m" in f:
            if self.path.exists():
                self.path.unlink()
        else:
            self.path.write_bytes(bytes(f["c"]))

    def get_file(self):
        if not self.path.exists():
            return dict(MISSING)
        return {"c": list(self.path.read_bytes())}

    def new_instance(self):
        from spacepackets.seqcount import FileSeqCountProvider, PusFileSeqCountProvider
        if self.pus:
            self.inst = PusFileSeqCountProvider(self.path)
        else:
            self.inst = FileSeqCountProvider(self.w, self.path)

    def ensure_instance(self):
        """An instance that existed before the current file content (constructor side effect avoided)."""
        if self.inst is None:
            keep = self.get_file()
            self.path.write_bytes(b"0\n")
            self.new_instance()
            self.set_file(keep)

    def call(self, op, mem=None):
        def val(fn):
            r = outcome(lambda: {"v": int(fn())})
            return r
        if op == "restart":
            self.new_instance()
            return "none"
        if op == "next_file":
            self.ensure_instance()
            return val(self.inst.get_and_increment)
        if op == "current":
            self.ensure_instance()
            return val(self.inst.current)
        if op == "next_mem":
            return val(mem.get_and_increment)
        raise ValueError(op)

    def cleanup(self):
        if self.path.exists():
            self.path.unlink()


def peek(mem):
    return int(copy.deepcopy(mem).get_and_increment())


def run(ctx):
    from spacepackets.seqcount import SeqCountProvider
    ctx.rule = RULE
    ctx.assumptions = ["the file is modelled at character level (ASCII), only its first line carries the count",
                       "a FileSeqCountProvider instance holds no state besides path and width, so a restart is a new instance",
                       "crash points are the points between public calls (the statement's quantifier), not inside a write"]
    n_total = 0
    for w in ctx.q([1, 2, 3], [1, 2, 3, 4]):
        for faults in (False, True):
            edges = {}

            def on_edge(e):
                edges.setdefault(canon(e["src"]), []).append(e)
            ctx.explore_graph("MC_SeqCount", "MC_SeqCount.cfg", f"seq-w{w}-{'faults' if faults else 'clean'}", on_edge,
                              consts=f"CONSTANT W = {w}\nCONSTANT Faults = {'TRUE' if faults else 'FALSE'}", workers=1,
                              need_actions=("Restart", "NextFile", "NextMem") + (("Delete", "Scribble") if faults else ()))
            real = Real(ctx, w)
            init = canon({"file": MISSING, "mem": 0})
            seen = {init}
            stack = [(init, dict(MISSING), SeqCountProvider(w), [])]
            while stack:
                key, rfile, rmem, path = stack.pop()
                for e in edges.get(key, []):
                    n_total += 1
                    ev = e["ev"]
                    real.inst = None
                    real.set_file(rfile)
                    mem = copy.deepcopy(rmem)
                    if ev["a"] == "delete":
                        real.set_file(MISSING)
                        ret = "none"
                    elif ev["a"] == "scribble":
                        real.set_file({"c": ev["c"]})
                        ret = "none"
                    else:
                        ret = real.call(ev["a"], mem)
                    post_file = real.get_file()
                    post_mem = peek(mem)
                    exp_ret = ev.get("ret", "none")
                    ctx.count(canon([w, e["src"], ev]))
                    clause = None
                    if ret != exp_ret:
                        clause = "ret"
                    elif post_file != e["dst"]["file"]:
                        clause = "file"
                    elif post_mem != e["dst"]["mem"]:
                        clause = "mem"
                    if n_total % 3001 == 1:
                        ctx.sample({"width": w, "pre": e["src"], "call": ev, "post": e["dst"]})
                    if clause:
                        wrap = int(ev["a"] == "next_mem" and e["src"]["mem"] == 2 ** w - 1 or e["dst"]["mem"] == 0 and clause == "mem")
                        fp = f"seq.{ev['a']}/{clause}/wrap={wrap}"
                        ctx.violation(fp, f"width {w}, after {len(path)} calls: {short(ev)} on {short(e['src'])}: specification gives "
                                          f"{short(e['dst'])}; code returned {short(ret)}, file {short(post_file)}, next in-memory value {post_mem}",
                                      {"kind": "seq-path", "w": w, "path": path + [ev], "expected": e["dst"], "expected_ret": exp_ret})
                    dk = canon(e["dst"])
                    if dk not in seen and not clause:
                        seen.add(dk)
                        stack.append((dk, post_file, mem, path + [ev]))
            real.cleanup()
    ctx.traces += n_total
    ctx.note(f"replayed {n_total} transitions on real providers and a real file")
    bad = ctx.validate_trace("Trace_SeqCount", histories(ctx), "histories", shard=40000)
    for i, clause in sorted(bad.items()):
        hist = ctx.trace_history(i)
        e = hist[-1]
        w_at = [x["w"] for x in hist if x["op"] in ("init", "set_width")][-1]
        fp = f"seq.{e['op']}/{clause}/mode=trace,w={w_at}"
        ctx.violation(fp, f"recorded history (width {hist[0]['w']}, {len(hist)} calls): {short(e)} disagrees with the specification on {clause}",
                      {"kind": "seq-history", "history": hist[-50:] if len(hist) > 50 else hist, "w": hist[0]["w"], "w_at": w_at,
                       "calls_before": len(hist)})
    from .. import repotests
    bad = ctx.validate_trace("Trace_SeqCount", repotests.counter_histories(ctx), "repo-tests")
    for i, clause in sorted(bad.items()):
        hist = ctx.trace_history(i)
        e = hist[-1]
        ctx.violation(f"seq.{e['op']}/{clause}/mode=repo-test,w={hist[0]['w']}",
                      f"counter call made by {hist[0].get('test')} (width {hist[0]['w']}): {short(e)} disagrees with the specification on {clause}",
                      {"kind": "seq-history", "history": hist, "w": hist[0]["w"], "w_at": hist[0]["w"], "calls_before": len(hist)})
    ctx.exhaustive = True
    ctx.extra["exhaustive_note"] = "all call/restart/fault interleavings for the listed small widths; long random histories beyond"


def dv(r):
    """returned count as its decimal digit string (ASCII codes): TLC integers are 32-bit, counters may be 64 bits wide"""
    return {"vd": list(str(r["v"]).encode())} if isinstance(r, dict) and "v" in r else r


def histories(ctx):
    for e in histories_int(ctx):
        if "ret" in e:
            e["ret"] = dv(e["ret"])
        yield e
    yield from wide_histories(ctx)


def wide_histories(ctx):
    """Widths beyond TLC's integers, started near the places where decimal length, 2^31/2^32/2^53 or the modulus are crossed
    (the file and the in-memory count are set to the start value through the file / the public count attribute)."""
    from spacepackets.seqcount import SeqCountProvider
    rng = ctx.rng
    plan = []
    for w in (20, 31, 32, 33, 40, 53, 54, 63, 64, 65, 96, 103, 113, 128, 196, 200):
        starts = {2 ** w - 3, 2 ** (w - 1) - 2} | {10 ** k - 2 for k in range(5, 62) if 10 ** k + 4 < 2 ** w and (k < 20 or k % 7 == 3)}
        if w > 64:
            starts |= {2 ** 64 - 3, 10 ** (len(str(2 ** w)) - 1) - 2, 10 ** (len(str(2 ** w)) - 1) + 5}
        starts |= {s for s in (2 ** 31 - 2, 2 ** 32 - 2, 2 ** 53 - 2) if s + 4 < 2 ** w}
        for s in sorted(starts) if ctx.thorough else rng.sample(sorted(starts), min(len(starts), 5)) + [2 ** w - 3]:
            plan.append((w, s))
    for w, start in plan:
        real = Real(ctx, w)
        mem = SeqCountProvider(w)
        real.set_file(MISSING)
        yield {"op": "init", "w": w, "file": real.get_file()}
        real.new_instance()
        yield {"op": "restart", "ret": "none", "file": real.get_file()}
        real.set_file({"c": list(f"{start}\n".encode())})
        yield {"op": "scribble", "ret": "none", "file": real.get_file()}
        mem.count = start
        yield {"op": "set_mem", "vd": list(str(start).encode()), "ret": "none", "file": real.get_file()}
        for i in range(7):
            if i == 3 or rng.random() < 0.2:
                real.new_instance()
                yield {"op": "restart", "ret": "none", "file": real.get_file()}
            yield {"op": "next_file", "ret": dv(real.call("next_file")), "file": real.get_file()}
            yield {"op": "next_mem", "ret": dv(real.call("next_mem", mem)), "file": real.get_file()}
            if rng.random() < 0.4:
                yield {"op": "current", "ret": dv(real.call("current")), "file": real.get_file()}
        # a stored count that is one too large / far too large for the width is refused
        for bad in (2 ** w, 10 ** 20 + 7):
            real.set_file({"c": list(f"{bad}\n".encode())})
            yield {"op": "scribble", "ret": "none", "file": real.get_file()}
            yield {"op": "next_file", "ret": dv(real.call("next_file")), "file": real.get_file()}
        real.cleanup()


SCRIBBLES = [0]


def histories_int(ctx):
    from spacepackets.seqcount import SeqCountProvider
    from spacepackets.ccsds.spacepacket import PacketSeqCtrl, SequenceFlags
    rng = ctx.rng
    plan = [(14, True), (8, False), (3, False), (1, False)] + ([(16, False), (14, False), (5, False)] if ctx.thorough else [])
    for w, pus in plan:
        real = Real(ctx, w, pus)
        mem = SeqCountProvider(w)
        real.set_file(MISSING)
        yield {"op": "init", "w": w, "file": real.get_file()}
        real.new_instance()
        yield {"op": "restart", "ret": "none", "file": real.get_file()}
        ncalls = 2 ** w + 120 + rng.randrange(0, 50)      # well past the rollover: the count gains digits again over a stale tail
        faults_at = set(rng.sample(range(ncalls), 12))
        for i in range(ncalls):
            if rng.random() < 0.02:
                real.new_instance()
                yield {"op": "restart", "ret": "none", "file": real.get_file()}
            if i in faults_at:
                kind = rng.randrange(3)
                if kind == 0:
                    real.set_file(MISSING)
                    yield {"op": "delete", "ret": "none", "file": real.get_file()}
                    yield {"op": "next_file", "ret": real.call("next_file"), "file": real.get_file()}
                    yield {"op": "current", "ret": real.call("current"), "file": real.get_file()}
                    real.new_instance()
                    yield {"op": "restart", "ret": "none", "file": real.get_file()}
                else:
                    keep = real.get_file()
                    # (the last four: octets that are not text at all inside the count line)
                    menu = [b"", b"\n", b"abc\n", b"-5\n", str(2 ** w).encode() + b"\n", b"1.5\n", b" 7\n",
                            b"1\xff2\n", b"\xfe7\n", b"\xff\n", b"3\x80\n",
                            # signs, prefixes, separators, exponents; and VALID multi-line contents whose count is
                            # about to gain a digit (what a rollover leaves behind: "0\n383\n" ... "9\n383\n")
                            b"-0\n", b"-00\n", b"+0\n", b"+5\n", b"0x1\n", b"1_0\n", b"1e0\n", b"0b1\n",
                            b"9\n383\n", b"99\n7\n", b"1\n\n\n"]
                    bad = menu[SCRIBBLES[0] % len(menu)]       # every content is used, in turn
                    SCRIBBLES[0] += 1
                    real.set_file({"c": list(bad)})
                    yield {"op": "scribble", "ret": "none", "file": real.get_file()}
                    yield {"op": "next_file", "ret": real.call("next_file"), "file": real.get_file()}
                    real.set_file(keep)
                    yield {"op": "scribble", "ret": "none", "file": real.get_file()}
            r = real.call("next_file")
            e = {"op": "next_file", "ret": r, "file": real.get_file()}
            if w <= 14 and "v" in r:
                e["psc_ok"] = "exc" not in outcome(lambda: {"ok": PacketSeqCtrl(SequenceFlags.UNSEGMENTED, r["v"]).raw()})
            yield e
            r = real.call("next_mem", mem)
            e = {"op": "next_mem", "ret": r, "file": real.get_file()}
            if w <= 14 and "v" in r:
                e["psc_ok"] = "exc" not in outcome(lambda: {"ok": PacketSeqCtrl(SequenceFlags.UNSEGMENTED, r["v"]).raw()})
            yield e
            if rng.random() < 0.01:
                yield {"op": "current", "ret": real.call("current"), "file": real.get_file()}
            if not pus and rng.random() < 0.01:
                # the public width setter, only while both stored counts fit the new width
                n = max(1, rng.choice([real.w - 1, real.w + 1, real.w, 2, 8, 3]))
                cur = real.call("current")
                if "v" in cur and cur["v"] < 2 ** n and peek(mem) < 2 ** n:
                    real.ensure_instance()
                    mem.max_bit_width = n
                    real.inst.max_bit_width = n
                    real.w = n
                    yield {"op": "set_width", "w": n, "ret": "none", "file": real.get_file()}
        real.cleanup()


def replay(r):
    from spacepackets.seqcount import SeqCountProvider

    class C:
        scratch = os.environ.get("TMPDIR", "/tmp")
    if r["kind"] == "seq-path":
        real = Real(C, r["w"])
        real.set_file(MISSING)
        mem = SeqCountProvider(r["w"])
        ret = None
        for ev in r["path"]:
            if ev["a"] == "delete":
                real.set_file(MISSING)
                ret = "none"
            elif ev["a"] == "scribble":
                real.set_file({"c": ev["c"]})
                ret = "none"
            else:
                ret = real.call(ev["a"], mem)
        post = {"file": real.get_file(), "mem": peek(mem)}
        real.cleanup()
        ok = ret == r["expected_ret"] and post == r["expected"]
        return ok, (f"width {r['w']} path {short(r['path'], 1500)}\n expected ret {short(r['expected_ret'])} state {short(r['expected'])}"
                    f"\n observed ret {short(ret)} state {short(post)}")
    # recorded history: the last call is repeated on the state logged before it and judged by the counting rule
    hist = r["history"]
    w = r.get("w_at", r["w"])
    e, before = hist[-1], (hist[-2] if len(hist) > 1 else None)
    M = 2 ** w

    def rule(content):
        if "m" in content:
            return {"exc": "notfound"}, None
        line = bytes(content["c"]).split(b"\n")[0].rstrip(b" \t\n\r\x0b\x0c")
        if not line or any(c not in b"0123456789" for c in line) or int(line) >= M:
            return {"exc": "value"}, None
        return {"vd": list(str(int(line)).encode())}, int(line)
    if e["op"] in ("next_file", "current") and before is not None:
        real = Real(C, w)
        real.set_file(before["file"])
        got = dv(real.call(e["op"]))
        post = real.get_file()
        real.cleanup()
        want, v = rule(before["file"])
        wfile = before["file"]
        if v is not None and e["op"] == "next_file":
            new = f"{(v + 1) % M}\n".encode()
            old = bytes(before["file"]["c"])
            wfile = {"c": list(new + old[len(new):])}
        ok = got == want and post == wfile
        return ok, (f"width {w}, file {short(before['file'])}: {e['op']} expected {short(want)} file {short(wfile)}, observed "
                    f"{short(got)} file {short(post)}")
    if e["op"] == "next_mem":
        last = [x for x in hist[:-1] if x["op"] in ("next_mem", "set_mem")]
        if last:
            x = last[-1]
            v0 = int(bytes(x["vd"] if x["op"] == "set_mem" else x["ret"]["vd"]))
            mem = SeqCountProvider(w)
            mem.count = v0 if x["op"] == "set_mem" else (v0 + 1) % M
            got = mem.get_and_increment()
            return got == mem_expected(x, v0, M), f"in-memory provider width {w}: after {short(x)} the call returned {got}"
    return False, f"recorded event {short(e)} (width {w}) was rejected by the trace specification"


def mem_expected(x, v0, M):
    return v0 if x["op"] == "set_mem" else (v0 + 1) % M
