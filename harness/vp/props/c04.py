"""C04 - a corrupted CRC-protected packet is never accepted as valid."""
from ..ops import perform, record
from .cfdp_common import rnd_cfg, rnd_params, KINDS
from .c02 import rand_params as rnd_tc

RULE = ("A: TLC enumerates fault schedules (packet, bit offset, burst shape) - for 2 TCs, 4 TMs (time stamp 0 / 7 octets) and "
        "the 8 CFDP PDU kinds x 2 parameter sets x CRC configurations (normal / large file, ID widths 1, 2, 8): EVERY single "
        "bit and, for every width 2..16, the all-ones and the two-ends-only burst at EVERY bit offset; the specification "
        "checks on itself that its decoder refuses each corrupted packet (Inv_Detect) and that the burst avoids the "
        "length-determining octets (PUS: length field; CFDP: the 4-octet fixed header part); each schedule is executed: pack "
        "with the real code, flip, decode through the class decoder and the generic entry (PduFactory.from_raw / "
        "check_pus_crc). Clean packets, also after setter calls, must be accepted. MC_Crc checks the design fact (every "
        "burst <= 16 bits changes CRC-16/CCITT-FALSE) exhaustively over all 32 768 burst shapes at the offsets of a short "
        "message. B: random packets x random interior burst patterns at random legal offsets validated by TLC. "
        "non-trivial = a burst that is legal (must be detected) or a clean packet; distinct = distinct (packet, fault).")


def classify(e):
    a = e["a"]
    k = a["kind"] if a["kind"] != "pdu" else a["pk"]
    return f"{k},burst={int(a['w'] > 0)},mut={int(bool(a['mut']))}"


def rnd_tm(rng):
    n = rng.choice([0, 1, 7, 16])
    return {"ver": 0, "apid": rng.randrange(2048), "seq": rng.randrange(16384), "service": rng.randrange(256),
            "subservice": rng.randrange(256), "msgcnt": rng.randrange(65536), "dest": rng.randrange(65536),
            "timeref": rng.randrange(16), "stamp": [rng.randrange(256) for _ in range(n)],
            "data": [rng.randrange(256) for _ in range(rng.choice([0, 1, 5, 40]))]}


def rnd_burst(rng, nbits, lenbits):
    for _ in range(50):
        w = rng.randrange(1, 17)
        pat = 1 if w == 1 else (1 << (w - 1)) | 1 | (rng.randrange(1 << (w - 1)) & ~1)
        off = rng.randrange(0, nbits - w + 1)
        if not (set(range(off, off + w)) & lenbits):
            return off, w, pat
    return 48, 1, 1


def events(ctx):
    from ..ops_ecss import mk_tc, mk_tm
    from ..ops_cfdp import mk_pdu
    rng = ctx.rng
    # packets whose running CRC is exactly zero after the primary / secondary header
    from .c02 import crc_zero_prefix_tcs
    for p in crc_zero_prefix_tcs(rng, 5):
        base = {"kind": "tc", "p": p, "pk": "none", "cfg": {"none": 0}}
        yield record("fault.decode", dict(base, mut=[], off=0, w=0, pat=0))
        yield record("fault.decode", dict(base, mut=[{"f": "data", "x": p["data"]}], off=0, w=0, pat=0))
    # clean packets (and one single-bit fault each) of every size around the octet boundaries of the length field: the
    # standalone check must agree with the decoder for all of them
    for n in list(range(236, 262)) + list(range(492, 520)) + list(range(1004, 1030)) + ctx.q([], list(range(2040, 2060)) + [65000]):
        for kind in ("tc", "tm"):
            p = rnd_tc(rng, n) if kind == "tc" else dict(rnd_tm(rng), data=[rng.randrange(256) for _ in range(n)])
            base = {"kind": kind, "p": p, "pk": "none", "cfg": {"none": 0}, "mut": []}
            yield record("fault.decode", dict(base, off=0, w=0, pat=0))
            yield record("fault.decode", dict(base, off=48 + rng.randrange(8 * n + 8), w=1, pat=1))
    pus_len = set(range(32, 48))
    pdu_len = set(range(0, 32))
    for _ in range(ctx.q(2500, 60000)):
        c = rng.randrange(3)
        if c == 0:
            p = rnd_tc(rng)
            base = {"kind": "tc", "p": p, "pk": "none", "cfg": {"none": 0}, "mut": []}
            n = 8 * len(mk_tc(p).pack())
            lb = pus_len
        elif c == 1:
            p = rnd_tm(rng)
            base = {"kind": "tm", "p": p, "pk": "none", "cfg": {"none": 0}, "mut": []}
            n = 8 * len(mk_tm(p).pack())
            lb = pus_len
        else:
            k = rng.choice(KINDS)
            cfg = rnd_cfg(rng, crc=1)
            p = rnd_params(rng, k, cfg["large"])
            if k == "filedata":
                p["data"] = p["data"][:64]
            base = {"kind": "pdu", "p": p, "pk": k, "cfg": cfg, "mut": []}
            n = 8 * len(mk_pdu(k, cfg, p)[0].pack())
            lb = pdu_len
        yield record("fault.decode", dict(base, off=0, w=0, pat=0))
        for _ in range(ctx.q(12, 40)):
            off, w, pat = rnd_burst(rng, n, lb)
            yield record("fault.decode", dict(base, off=off, w=w, pat=pat))


def run(ctx):
    ctx.rule = RULE
    ctx.assumptions = ["length-determining octets: PUS octets 5-6; CFDP the 4-octet fixed header part (data field length, ID / "
                       "sequence widths, and octet 1 with the CRC-presence and large-file flags - a flipped CRC flag cannot be "
                       "detected by any receiver)", "a refusal must be one of the documented error families; the factory's None "
                       "answer counts as refusal", "adapters vp/ops_fault.py flip bits with a Python twin of Octets!FlipBits"]
    # design-level fact: every burst of <= 16 bits changes the CRC
    r = ctx.explore_graph("MC_Crc", "MC_Crc.cfg", "crc-bursts", lambda e: None, workers=16, coverage=False,
                          consts=f"CONSTANT MsgLen = {ctx.q(1, 6)}")
    ctx.extra["crc_burst_cases"] = r["distinct"]
    tier_parts = 'CONSTANT Area = "fault"'
    ctx.replay_vectors("MC_Codec", "MC_Codec.cfg", perform, "schedules", classify, consts=tier_parts,
                       need_actions=("PickVector",), timeout=3400)
    ctx.validate_events(events(ctx), "random-faults", classify, shard=4000)
    ctx.exhaustive = True
    ctx.extra["exhaustive_note"] = ("all single-bit flips and all-ones / two-ends bursts of every width at every legal offset of the "
                                    "grid packets; interior burst patterns sampled")
