"""C08 - CFDP TLV and LV items encode exactly, round-trip, and are type-safe."""
from ..ops import perform, record
from .cfdp_common import classify, rnd_bytes, rnd_name, rnd_resp, COND, FS_STATUS

CLASSES = ["entity", "flow", "fault", "fsreq", "fsresp", "msg"]
RULE = ("A: TLC grid - LV/TLV for all 6 types x value lengths {0,1,2,127,128,254,255,256} x suffixes; every concrete TLV class "
        "(13 condition codes x 4 handler codes; 9 action codes x their status codes x names incl. multi-octet UTF-8 x "
        "filestore message) through unpack / from_tlv / holder; the full 6 x 5 (class, foreign type) x 3 entry-point mismatch "
        "matrix; all strict prefixes - executed on the code. B: recorded round trips with random values, names and messages, "
        "random raw strings, validated by TLC. distinct = distinct (op, args).")


def rnd_ctlv(rng, cls):
    if cls in ("entity",):
        return {"v": rnd_bytes(rng, rng.choice([1, 2, 4, 8]))}
    if cls in ("flow", "msg"):
        return {"v": rnd_bytes(rng, rng.choice([0, 1, 2, 10, 100, 255]))}
    if cls == "fault":
        return {"cond": rng.choice(COND), "handler": rng.randrange(1, 5)}
    r = rnd_resp(rng)
    if cls == "fsreq":
        return {"action": r["action"], "n1": r["n1"], "n2": r["n2"]}
    return r


def events(ctx):
    rng = ctx.rng
    # two different names of equal length whose CRC-32 (and CRC of any width over that polynomial) coincide, in ONE TLV and in
    # TLVs decoded one after the other: names are compared / remembered as names, never through a digest
    from ..core import crc32_text_twin
    for base in ("images/raw_0001.bin", "abcdefghijklmnop", "/data/xprizz/img_ehtf.raw"):
        tw = crc32_text_twin(base)
        if tw is None:
            continue
        b1, b2 = list(base.encode()), list(tw)
        for act in (2, 3, 4):
            for n1, n2 in ((b1, b2), (b2, b1)):
                yield record("ctlv.rt", {"cls": "fsreq", "p": {"action": act, "n1": n1, "n2": n2}, "sfx": [], "via": "unpack"})
                yield record("ctlv.rt", {"cls": "fsresp", "p": {"action": act, "status": 0, "n1": n1, "n2": n2, "msg": []}, "sfx": [],
                                         "via": "from_tlv"})
        for n1 in (b1, b2, b1):
            yield record("ctlv.rt", {"cls": "fsreq", "p": {"action": 0, "n1": n1, "n2": []}, "sfx": [], "via": "holder"})
    from ..core import source_constants
    for c in source_constants():
        yield record("tlv.unpack", {"octets": list(c) + [6, 2, 1, 2]})
        yield record("tlv.unpack", {"octets": [2, len(c) + 2] + list(c) + [1, 2]})
        yield record("lv.unpack", {"octets": list(c) + [2, 1, 2] + [0] * 300})
        for cls in ("entity", "flow", "fault", "fsreq", "fsresp", "msg"):
            yield record("ctlv.unpack", {"cls": cls, "octets": list(c) + [6, 2, 1, 2], "via": "unpack"})
    for n in range(0, 258):
        yield record("lv.rt", {"v": rnd_bytes(rng, n), "sfx": rnd_bytes(rng, rng.choice([0, 0, 3]))})
        yield record("tlv.rt", {"t": rng.choice([0, 1, 2, 4, 5, 6]), "v": rnd_bytes(rng, n), "sfx": rnd_bytes(rng, rng.choice([0, 0, 3]))})
    for _ in range(ctx.q(20000, 600000)):
        cls = rng.choice(CLASSES)
        via = rng.choice(["unpack", "unpack", "from_tlv", "holder"])
        yield record("ctlv.rt", {"cls": cls, "p": rnd_ctlv(rng, cls), "sfx": rnd_bytes(rng, rng.choice([0, 0, 2, 5])), "via": via})
    for _ in range(ctx.q(10000, 300000)):
        n = rng.choice([0, 1, 2, 3, 4, 6, 10])
        b = rnd_bytes(rng, n)
        if b and rng.random() < 0.8:
            b[0] = rng.choice([0, 1, 2, 4, 5, 6])
        if len(b) > 1 and rng.random() < 0.7:
            b[1] = rng.choice([0, n - 2, n - 2, n - 1, max(0, n - 3)])
        yield record("tlv.unpack", {"octets": b})
        yield record("lv.unpack", {"octets": b[1:]})


def run(ctx):
    ctx.rule = RULE
    ctx.assumptions = ["file names are generated as valid UTF-8 and handed to the library as str",
                       "status codes per action are those of 727.0-B-5 table 5-18 that the library's enum also defines "
                       "(delete/'not allowed' = 2 is left unjudged)",
                       "holder conversions may answer a mismatch with TypeError or TlvTypeMissmatch (DESIGN.md 7 rule 4)"]
    ctx.replay_vectors("MC_Codec", "MC_Codec.cfg", perform, "grid", classify, consts='CONSTANT Area = "tlv"',
                       need_actions=("PickVector",))
    ctx.validate_events(events(ctx), "calls", classify, shard=2000)
    from .. import repotests
    repotests.codec_stage(ctx, "C08")       # the calls the repository's own tests make, judged by the specification
    ctx.exhaustive = False
