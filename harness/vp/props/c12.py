"""C12 - the PDU factory returns the right PDU kind, equal to what was packed."""
from ..ops import perform, record
from .cfdp_common import classify, rnd_cfg, rnd_params, KINDS

RULE = ("A: TLC grid - all 8 PDU kinds x all 128 header configurations (the directive octet's position depends on the ID and "
        "sequence-number widths) x 2 parameter sets through PduFactory.from_raw / from_raw_to_holder / pdu_type / "
        "is_file_directive / pdu_directive_type, plus the full 8 x 8 (held kind, requested kind) holder accessor matrix; "
        "every vector executed on the code. B: recorded factory decodes of random PDUs of all kinds, validated by TLC. "
        "distinct = distinct (op, args).")


def events(ctx):
    rng = ctx.rng
    for k in KINDS:
        for _ in range(ctx.q(2500, 120000)):
            cfg = rnd_cfg(rng)
            p = rnd_params(rng, k, cfg["large"])
            yield record("pdu.fac", {"kind": k, "cfg": cfg, "p": p, "sfx": []})
            if rng.random() < 0.15:
                yield record("holder.matrix", {"kind": k, "cfg": cfg, "p": p})
    # held PDUs whose CONTENTS look like format strings (braces, percent signs) - file data that is JSON, a checksum with
    # 0x7B / 0x7D: the holder's refusals are about the kind of the PDU, not about what it carries
    cfg = {"crc": 0, "large": 0, "mode": 0, "segctrl": 0, "dir": 0, "src": [1], "dst": [2], "seq": [3]}
    for data in (list(b'{"k": [1]}'), list(b"{}"), list(b"%s %d {0.x}"), list(b"{")):
        yield record("holder.matrix", {"kind": "filedata", "cfg": cfg, "p": {"offset": [0], "data": data, "meta": []}})
        yield record("holder.matrix", {"kind": "filedata", "cfg": cfg, "p": {"offset": [0], "data": [1], "meta": [{"state": 1, "md": data[:20]}]}})
    for ck in ([123, 125, 123, 125], [37, 115, 123, 48], [123, 48, 46, 120]):
        yield record("holder.matrix", {"kind": "eof", "cfg": cfg, "p": {"cond": 0, "checksum": ck, "size": [9], "fault": []}})
    yield record("holder.matrix", {"kind": "metadata", "cfg": cfg, "p": {"closure": 1, "cktype": 0, "size": [9], "srcname": list(b"{a}"),
                                                                        "dstname": list(b"{0.x}"), "options": []}})


def run(ctx):
    ctx.rule = RULE
    ctx.assumptions = ["adapters vp/ops_cfdp.py build/project PDUs by constructor calls and attribute reads only",
                       "'instance of exactly that kind' is checked with type(obj) is <class>"]
    ctx.replay_vectors("MC_Codec", "MC_Codec.cfg", perform, "grid", classify, consts='CONSTANT Area = "fac"',
                       need_actions=("PickVector",))
    ctx.validate_events(events(ctx), "calls", classify, shard=1500)
    from .. import repotests
    repotests.codec_stage(ctx, "C12")       # the calls the repository's own tests make, judged by the specification
    ctx.exhaustive = False
