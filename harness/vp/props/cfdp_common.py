"""Shared generators / classifiers for the CFDP properties."""
from __future__ import annotations

COND = [0, 1, 2, 3, 4, 5, 6, 7, 8, 10, 11, 14, 15]
CKTYPES = [0, 1, 2, 3, 15]
KINDS = ["eof", "finished", "ack", "metadata", "nak", "prompt", "keepalive", "filedata"]
FS_STATUS = {0: [0, 1, 15], 1: [0, 1, 15], 2: [0, 1, 2, 3, 15], 3: [0, 1, 2, 3, 15], 4: [0, 1, 2, 3, 15], 5: [0, 1, 15],
             6: [0, 1, 2, 15], 7: [0, 2, 15], 8: [0, 2, 15]}
NAMES = ["", "a", "ä.txt", "dir/file.bin", "日本語", "x" * 40, "/data/cfdp/f.bin", "log.cfdp", "\ufeffnotes.txt", "a\ufeffb", "tab\there", "nul\x00in", "cafe\u0301.txt", "\u212bngstrom", "end\x00", "\x00\x00",
         "part_{}.bin", "${HOME}/r.bin", "{0.x}{date}", "%s%d"]


def classify(e):
    a = e["a"]
    op = e["op"]
    if op in ("pdu.rt", "pdu.fac", "holder.matrix"):
        c, p, k = a["cfg"], a["p"], a["kind"]
        bits = [k, f"crc={c['crc']}", f"large={c['large']}", f"sfx={int(bool(a.get('sfx')))}"]
        if k in ("eof", "finished"):
            bits += [f"cond0={int(p['cond'] == 0)}", f"fault={int(bool(p['fault']))}"]
        if k == "finished":
            bits.append(f"resp={int(bool(p['responses']))}")
        if k == "metadata":
            bits.append(f"opts={int(bool(p['options']))}")
        if k == "nak":
            bits.append(f"segs={int(bool(p['segs']))}")
        if k == "filedata":
            bits += [f"meta={int(bool(p['meta']))}", f"data0={int(not p['data'])}"]
        return ",".join(bits)
    if op in ("ctlv.rt", "ctlv.unpack", "ctlv.mismatch"):
        return f"{a['cls']},via={a.get('via')},sfx={int(bool(a.get('sfx')))}"
    if op == "pdu.unpack":
        return f"want={a['want']},{a.get('how', '')}"
    if op in ("lv.rt", "tlv.rt"):
        return f"len={'>255' if len(a['v']) > 255 else '<=255'},sfx={int(bool(a['sfx']))}"
    if op in ("lv.unpack", "tlv.unpack"):
        return f"len={min(len(a['octets']), 3)}"
    return ""


def rnd_bytes(rng, n):
    return [rng.randrange(256) for _ in range(n)]


def rnd_id(rng, w):
    return rng.choice([[0] * w, [255] * w, rnd_bytes(rng, w), rnd_bytes(rng, w)])


def rnd_cfg(rng, crc=None, large=None):
    idw, seqw = rng.choice([1, 2, 4, 8]), rng.choice([1, 2, 4, 8])
    return {"crc": rng.randrange(2) if crc is None else crc, "large": rng.randrange(2) if large is None else large,
            "mode": rng.randrange(2), "segctrl": int(rng.random() < 0.3), "dir": rng.randrange(2), "src": rnd_id(rng, idw),
            "dst": rnd_id(rng, idw), "seq": rnd_id(rng, seqw)}


def rnd_size(rng, large, overflow=False):
    w = 8 if large else 4
    if overflow:
        return [1] + [0] * w if rng.random() < 0.5 else [rng.randrange(1, 256)] + rnd_bytes(rng, w)
    return rng.choice([[0], [255] * w, rnd_bytes(rng, w), rnd_bytes(rng, rng.randrange(1, w + 1)), [1, 0]])


def rnd_name(rng):
    return list(rng.choice(NAMES).encode())


def with_repeats(rng, items):
    """a list in which an item may occur twice (lists handed to / found in PDUs are lists, not sets)"""
    if items and rng.random() < 0.25:
        import copy
        items = list(items)
        items.insert(rng.randrange(len(items) + 1), copy.deepcopy(items[0]))
    return items


def rnd_resp(rng):
    act = rng.randrange(9)
    two = act in (2, 3, 4)
    return {"action": act, "status": rng.choice(FS_STATUS[act]), "n1": rnd_name(rng), "n2": rnd_name(rng) if two else [],
            "msg": rnd_bytes(rng, rng.choice([0, 0, 3, 20]))}


def rnd_params(rng, kind, large, overflow=False):
    if kind == "eof":
        cond = rng.choice(COND)
        fault = [] if cond == 0 or rng.random() < 0.5 else [rnd_id(rng, rng.choice([1, 2, 4, 8]))]
        return {"cond": cond, "checksum": rnd_bytes(rng, 4), "size": rnd_size(rng, large, overflow), "fault": fault}
    if kind == "finished":
        cond = rng.choice(COND)
        fault = [] if cond in (0, 11) or rng.random() < 0.5 else [rnd_id(rng, rng.choice([1, 2, 4, 8]))]
        return {"cond": cond, "delivery": rng.randrange(2), "status": rng.randrange(4),
                "responses": with_repeats(rng, [rnd_resp(rng) for _ in range(rng.choice([0, 0, 1, 2, 3]))]), "fault": fault}
    if kind == "ack":
        return {"acked": rng.choice([4, 5]), "cond": rng.choice(COND), "tstatus": rng.randrange(4)}
    if kind == "metadata":
        opts = [{"t": rng.choice([0, 1, 2, 4, 5, 6]), "v": rnd_bytes(rng, rng.choice([0, 1, 5, 30]))}
                for _ in range(rng.choice([0, 0, 1, 2, 3]))]
        return {"closure": rng.randrange(2), "cktype": rng.choice(CKTYPES), "size": rnd_size(rng, large, overflow),
                "srcname": rnd_name(rng), "dstname": rnd_name(rng), "options": with_repeats(rng, opts)}
    if kind == "nak":
        n = rng.choice([0, 0, 1, 2, 5])
        segs = [[rnd_size(rng, large), rnd_size(rng, large)] for _ in range(n)]
        if segs and rng.random() < 0.3:
            # repeated items are legal list contents (overlapping NAK timers request the same range twice): the list is a
            # list, not a set
            segs.insert(rng.randrange(len(segs) + 1), [list(segs[0][0]), list(segs[0][1])])
        if overflow and segs and rng.random() < 0.5:
            segs[-1][rng.randrange(2)] = rnd_size(rng, large, True)
            return {"start": rnd_size(rng, large), "end": rnd_size(rng, large), "segs": segs}
        return {"start": rnd_size(rng, large, overflow and rng.random() < 0.5), "end": rnd_size(rng, large, overflow),
                "segs": segs}
    if kind == "prompt":
        return {"resp": rng.randrange(2)}
    if kind == "keepalive":
        return {"progress": rnd_size(rng, large, overflow)}
    if kind == "filedata":
        meta = []
        if rng.random() < 0.4:
            meta = [{"state": rng.randrange(4), "md": rnd_bytes(rng, rng.choice([0, 1, 7, 63, 64 if overflow else 62]))}]
        return {"offset": rnd_size(rng, large, overflow and not meta), "data": rnd_bytes(rng, rng.choice([0, 1, 2, 17, 255, 1024])),
                "meta": meta}
    raise ValueError(kind)
