"""C09 - decoders never read past the declared packet; trailing octets cannot leak in."""
from ..ops import perform, record
from .cfdp_common import rnd_cfg, rnd_params, rnd_bytes, rnd_id, rnd_resp, KINDS
from .c02 import rand_params as rnd_tc
from .c04 import rnd_tm
from .c15 import rnd_report, rnd_req
from .c17 import rnd_hdr as rnd_uslp_hdr

RULE = ("A: TLC grid - every self-delimiting unit kind (space packet header, PUS TC, TM, service-17 and service-1 wrappers, "
        "request ID, CDS stamp, CFDP header, LV, TLV, the six concrete TLVs via unpack / from_tlv / holder, USLP primary and "
        "truncated header, the eight PDU kinds x 9 configurations incl. CRC, class decoder and factory) x the suffix family "
        "{00, FF, a TLV-like 06 01 05, 16 zero octets (segment-request-like), the two octets that equal the unit's own CRC, a "
        "second copy of the unit, a valid telecommand, a directive-looking string}: the decoded object must be the one for the "
        "unit alone (complete PDUs may instead be refused with a documented error); and streams of back-to-back units (all "
        "18 x 18 ordered pairs, one stream of all 18 kinds, PDUs followed by PDUs) split purely by the reported lengths, with "
        "SplitOk checked on the specification's decoders. B: recorded calls validated by TLC - random units with random "
        "suffixes (incl. further valid packets) and random streams of 2..8 random units; foreign units (spec-encoded filestore "
        "TLVs / Finished / Metadata PDUs with names that are not UTF-8; library-packed units of every kind with 1..4 non-length "
        "octets replaced and the checksum repaired) x suffixes: if accepted, the reported length is the declared one and the "
        "object is the one decoded from the unit alone. distinct = distinct (op, args).")


def classify(e):
    a, op = e["a"], e["op"]
    if op == "sfx.foreign":
        return f"k={a['u']['k']},sfx={int(bool(a['sfx']))}"
    if op == "stream.split":
        return "kinds=" + "+".join(sorted({u["k"] for u in a["units"]}))[:60]
    from .cfdp_common import classify as cc
    return cc(e) or f"sfx={int(bool(a.get('sfx')))}"


def rnd_unit(rng, allow_pdu=True):
    k = rng.choice(["tc", "tm", "sph", "srv1", "srv17", "cds", "reqid", "cfdphdr", "lv", "tlv", "ctlv", "uslphdr"] + (["pdu"] if allow_pdu else []))
    if k == "tc":
        return {"k": k, "p": rnd_tc(rng)}
    if k == "tm":
        return {"k": k, "p": rnd_tm(rng)}
    if k == "srv17":
        p = rnd_tm(rng)
        p.update({"service": 17, "msgcnt": 0})
        return {"k": k, "p": p}
    if k == "sph":
        return {"k": k, "p": {"ver": rng.randrange(8), "type": rng.randrange(2), "shf": rng.randrange(2), "apid": rng.randrange(2048),
                              "flags": rng.randrange(4), "count": rng.randrange(16384), "dlen": rng.randrange(65536)}}
    if k == "srv1":
        return {"k": k, "p": rnd_report(rng)}
    if k == "cds":
        return {"k": k, "p": {"days": rng.randrange(65536), "ms": rng.randrange(86400000)}}
    if k == "reqid":
        return {"k": k, "p": rnd_req(rng)}
    if k == "cfdphdr":
        c = rnd_cfg(rng)
        return {"k": k, "p": {"type": rng.randrange(2), "dir": c["dir"], "mode": c["mode"], "crc": c["crc"], "large": c["large"],
                              "dlen": rng.randrange(65536), "segctrl": c["segctrl"], "segmeta": rng.randrange(2), "src": c["src"],
                              "seq": c["seq"], "dst": c["dst"]}}
    if k == "lv":
        return {"k": k, "p": {"v": rnd_bytes(rng, rng.choice([0, 1, 5, 255]))}}
    if k == "tlv":
        return {"k": k, "p": {"t": rng.choice([0, 1, 2, 4, 5, 6]), "v": rnd_bytes(rng, rng.choice([0, 1, 5, 255]))}}
    if k == "ctlv":
        cls = rng.choice(["entity", "flow", "fault", "fsreq", "fsresp", "msg"])
        if cls in ("entity", "flow", "msg"):
            p = {"v": rnd_id(rng, rng.choice([1, 2, 4, 8])) if cls == "entity" else rnd_bytes(rng, rng.choice([0, 1, 9]))}
        elif cls == "fault":
            p = {"cond": rng.choice([1, 2, 4, 7, 15]), "handler": rng.randrange(1, 5)}
        else:
            r = rnd_resp(rng)
            p = r if cls == "fsresp" else {"action": r["action"], "n1": r["n1"], "n2": r["n2"]}
        return {"k": k, "p": {"cls": cls, "p": p}}
    if k == "uslphdr":
        return {"k": k, "p": rnd_uslp_hdr(rng)}
    kind = rng.choice(KINDS)
    cfg = rnd_cfg(rng)
    p = rnd_params(rng, kind, cfg["large"])
    return {"k": k, "p": {"kind": kind, "cfg": cfg, "p": p}}


def rnd_sfx(rng):
    from ..ops_fault import _unit
    c = rng.randrange(5)
    if c == 0:
        return rnd_bytes(rng, rng.randrange(1, 20))
    if c == 1:
        return list(bytes(_unit(rnd_unit(rng))[0]))[:300]
    if c == 2:
        return rng.choice([[6, 1, 5], [0] * 16, [0] * 8, [1, 0x10, 1, 97, 0], [4, 1, 0x13]])
    if c == 3:
        return [rng.randrange(256), rng.randrange(256)]
    return [0xFF] * rng.randrange(1, 9)


# 0-based positions of the octets that determine a unit's length (left alone when foreign contents are generated)
LENPOS = {"sph": (), "tc": (4, 5), "tm": (4, 5), "srv17": (4, 5), "srv1": (4, 5), "cds": (), "reqid": (), "cfdphdr": (3,),
          "lv": (0,), "tlv": (1,), "ctlv": (1,), "uslphdr": (6,), "pdu": (1, 2, 3)}


def foreign(rng, u):
    """The unit packed by the library with 1..4 of its octets replaced - never a length-determining one - and the checksum
    trailer (PUS packets, PDUs whose CRC flag is set afterwards) made valid again: what another implementation, or a sender
    with other conventions (reserved codes, names in another character set), puts into the same frame."""
    import binascii
    from ..ops_fault import _unit
    raw = bytearray(_unit(u)[0])
    k = u["k"]
    trailer = 2 if k in ("tc", "tm", "srv17", "srv1") else 0
    pos = [i for i in range(len(raw) - trailer) if i not in LENPOS[k]]
    if not pos:
        return None
    for _ in range(rng.choice([1, 1, 2, 4])):
        i = rng.choice(pos)
        raw[i] = rng.choice([0, 255, raw[i] ^ (1 << rng.randrange(8)), rng.randrange(256), 0xE9, 0xC3])
    if trailer or (k == "pdu" and raw[0] & 2 and len(raw) >= 6):
        raw[-2:] = binascii.crc_hqx(bytes(raw[:-2]), 0xFFFF).to_bytes(2, "big")
    return list(raw)


def events(ctx):
    rng = ctx.rng
    for _ in range(ctx.q(12000, 300000)):
        u = rnd_unit(rng)
        o = foreign(rng, u)
        if o is not None:
            yield record("sfx.foreign", {"u": u, "octets": o, "sfx": rng.choice([[], rnd_sfx(rng), rnd_sfx(rng)])})
    for _ in range(ctx.q(25000, 400000)):
        u = rnd_unit(rng)
        k, p, s = u["k"], u["p"], rnd_sfx(rng)
        if k == "tc":
            yield record("tc.rt", {"p": p, "sfx": s, "via": "ctor"})
        elif k == "tm":
            yield record("tm.rt", {"p": p, "sfx": s, "via": "tm"})
        elif k == "srv17":
            yield record("tm.rt", {"p": p, "sfx": s, "via": "srv17"})
        elif k == "srv1":
            yield record("srv1.rt", {"p": p, "tc": [], "via": rng.choice(["ctor", "from_tm"]), "sfx": s})
        elif k == "sph":
            from ..ops_ecss import _mk_hdr
            yield record("sph.unpack", {"octets": list(bytes(_mk_hdr(p).pack())) + s})
        elif k == "cds":
            yield record("cds.rt", {"st": p, "sfx": s})
        elif k == "reqid":
            yield record("reqid.rt", {"r": p, "sfx": s, "via": "ctor"})
        elif k == "cfdphdr":
            yield record("cfdphdr.rt", {"h": p, "sfx": s})
        elif k == "lv":
            yield record("lv.rt", {"v": p["v"], "sfx": s})
        elif k == "tlv":
            yield record("tlv.rt", {"t": p["t"], "v": p["v"], "sfx": s})
        elif k == "ctlv":
            yield record("ctlv.rt", {"cls": p["cls"], "p": p["p"], "sfx": s, "via": rng.choice(["unpack", "from_tlv", "holder"])})
        elif k == "uslphdr":
            yield record("uslp.hdr.rt", {"h": p, "sfx": s})
        else:
            yield record(rng.choice(["pdu.rt", "pdu.fac"]), {"kind": p["kind"], "cfg": p["cfg"], "p": p["p"], "sfx": s})
    # complete PDUs whose declared data field was consistently SHORTENED (length field and buffer end moved together, CRC
    # recomputed) so that it may no longer hold the directive's parameters, followed by further octets: if the decoder accepts,
    # it accepts the same thing without the suffix - parameters are never completed from what follows the PDU
    import binascii
    from ..ops_fault import _unit
    for _ in range(ctx.q(6000, 150000)):
        u = rnd_unit(rng)
        if u["k"] != "pdu":
            u = {"k": "pdu", "p": {"kind": rng.choice(KINDS), "cfg": rnd_cfg(rng), "p": None}}
            u["p"]["p"] = rnd_params(rng, u["p"]["kind"], u["p"]["cfg"]["large"])
        try:
            raw = list(bytes(_unit(u)[0]))
        except Exception:  # noqa
            continue
        cfg = u["p"]["cfg"]
        hl = 4 + 2 * len(cfg["src"]) + len(cfg["seq"])
        crc = cfg["crc"]
        if len(raw) - hl <= 2 * crc:
            continue
        n = rng.randrange(2 * crc, len(raw) - hl)
        b = [raw[0], n >> 8, n & 255] + raw[3:hl] + raw[hl:hl + n - 2 * crc]
        if crc:
            b += list(binascii.crc_hqx(bytes(b), 0xFFFF).to_bytes(2, "big"))
        yield record("sfx.foreign", {"u": u, "octets": b, "sfx": rng.choice([rnd_sfx(rng), [0] * 16, [255] * 9, raw[hl + n - 2 * crc:][:40] or [1]])})
    # the same for PUS packets: declared length lowered, buffer cut there, checksum recomputed, something follows
    for _ in range(ctx.q(4000, 100000)):
        k = rng.choice(["tc", "tm", "srv17", "srv1"])
        u = None
        while u is None or u["k"] != k:
            u = rnd_unit(rng, allow_pdu=False)
        try:
            raw = list(bytes(_unit(u)[0]))
        except Exception:  # noqa
            continue
        if len(raw) < 10 or len(raw) > 600:
            continue
        n = rng.randrange(7, len(raw))
        b = raw[:4] + [(n - 7) >> 8, (n - 7) & 255] + raw[6:max(6, n - 2)]
        b = b[:n - 2] if n >= 8 else b[:6]
        if n >= 8:
            b += list(binascii.crc_hqx(bytes(b), 0xFFFF).to_bytes(2, "big"))
        else:
            b += [0]                       # a 7-octet packet: one octet of data field, no room for anything
        if len(b) == n:
            yield record("sfx.foreign", {"u": u, "octets": b, "sfx": rng.choice([rnd_sfx(rng), raw[n - 2:][:30] or [1], [0] * 12])})
    for _ in range(ctx.q(8000, 150000)):
        n = rng.randrange(2, 9)
        pdus = rng.random() < 0.25
        yield record("stream.split", {"units": [rnd_unit(rng, allow_pdu=pdus) for _ in range(n)]})


def run(ctx):
    ctx.rule = RULE
    ctx.assumptions = ["the expectation of every round-trip operation is independent of the suffix: the decoded object must equal "
                       "the one for the unit alone", "a complete CFDP PDU followed by further octets may be refused with a "
                       "documented error instead", "units are split by the lengths the decoded objects report (packet_len / "
                       "header_len / len_packed / len())"]
    ctx.replay_vectors("MC_Codec", "MC_Codec.cfg", perform, "grid", classify, consts='CONSTANT Area = "sfx"',
                       need_actions=("PickVector",))
    ctx.validate_events(events(ctx), "calls", classify, shard=1500)
    ctx.exhaustive = False
