"""C13 - space packet stream parser reassembles losslessly under any fragmentation."""
from __future__ import annotations

import collections

from ..core import octs, outcome, canon, short, shrink

RULE = ("A: TLC explores every interleaving of append(k octets) / parse over every cut position of each test stream "
        "(<= 3 pending chunks) and checks Inv_Prefix / Inv_Tail / Inv_Done / Inv_Prompt / Act_ExactlyOnce; every emitted "
        "transition is executed on the real parse_space_packets twice: from the materialised pre-state (a fresh deque "
        "holding the spec's chunks) and along real paths (depth-first walk carrying the real deque), comparing the "
        "returned packets and the octets left in the deque. B: random streams of real PUS packets (plus garbage), random "
        "cut sets and parse points, recorded and validated by the Trace_SpParser specification. distinct = distinct "
        "(stream, pre-state, call) edges + distinct recorded events.")


def real_parse(chunks, ids):
    """One real parser call on a deque holding the given chunks."""
    from spacepackets.ccsds.spacepacket import parse_space_packets, PacketId
    dq = collections.deque(bytearray(c) for c in chunks)
    pids = [PacketId.from_raw(i) for i in ids]
    res = outcome(lambda: {"out": [octs(p) for p in parse_space_packets(dq, pids)]})
    res["queue"] = [octs(c) for c in dq]
    return res


def flat(chunks):
    return [b for c in chunks for b in c]


def run(ctx):
    ctx.rule = RULE
    ctx.assumptions = ["the parser has no state besides the caller-owned deque (module-level function)",
                       "garbage between packets is chosen so that it cannot form a registered packet ID with any neighbour",
                       "for streams with filler the kept octets are not compared, but the returned packets and completion "
                       "(rest of the stream + one more call delivers exactly the outstanding packets) are"]
    meta = {}
    edges = collections.defaultdict(list)      # (sid, srckey) -> [(ev, dst)]

    def on_meta(m):
        meta.update(m)

    def on_edge(e):
        edges[(e["sid"], canon(e["src"]))].append(e)

    streams_def = "StreamsThorough" if ctx.thorough else "StreamsQuick"
    ctx.explore_graph("MC_SpParser", "MC_SpParser.cfg", "parser", on_edge, on_meta=on_meta,
                      consts=f"CONSTANT MaxChunks = 3\nCONSTANT Streams <- {streams_def}",
                      workers=1, need_actions=("FeedAny", "Parse"))
    streams = meta["streams"]

    def check(e, obs, mode, path):
        """Compare one real parser call with the specification's transition e."""
        st = streams[e["sid"] - 1]
        exp_out = e["ev"]["out"]
        clause = None
        if "exc" in obs:
            clause = "exc"
        elif obs["out"] != exp_out:
            clause = "out"
        elif st["clean"] and flat(obs["queue"]) != flat(e["dst"]["queue"]):
            clause = "tail"
        else:
            # completion ("so that a later call finishes it"): whatever the call left in the real queue, appending the rest
            # of the stream and parsing once more must deliver exactly the packets still outstanding - this also judges the
            # tail of streams with filler, where the kept octets themselves are not compared
            rest = st["stream"][e["dst"]["fed"]:]
            fin = real_parse(obs["queue"] + ([rest] if rest else []), st["ids"])
            if fin.get("out") != st["packets"][e["dst"]["nd"]:]:
                clause = "completion"
                obs = dict(obs, then_rest_of_stream=fin)
        if clause:
            tail = len(flat(e["dst"]["queue"]))
            fp = f"parser.parse/{clause}/clean={int(st['clean'])},tail<=6={int(0 < tail <= 6)},mode={mode}"
            ctx.violation(fp, f"stream {e['sid']}: with queue {short(e['src']['queue'])} the specification delivers "
                              f"{short(exp_out)} and keeps {short(e['dst']['queue'])}; the code returned {short(obs)}",
                          {"kind": "parser-path", "ids": st["ids"], "clean": st["clean"], "path": path,
                           "expected_out": exp_out, "expected_tail": flat(e["dst"]["queue"]) if st["clean"] else None})

    # (1) every edge from its materialised pre-state
    n_edges = 0
    for (sid, _), lst in edges.items():
        st = streams[sid - 1]
        for e in lst:
            if e["ev"]["a"] != "parse":
                continue
            n_edges += 1
            obs = real_parse(e["src"]["queue"], st["ids"])
            ctx.count(canon([sid, e["src"]["queue"]]))
            if n_edges % 1500 == 1:
                ctx.sample({"stream": st["stream"], "queue_before": e["src"]["queue"], "spec_delivers": e["ev"]["out"],
                            "spec_keeps": e["dst"]["queue"]})
            check(e, obs, "edge", [{"chunks": e["src"]["queue"]}])
    # (2) depth-first walk carrying the real deque along real paths; every edge executed once
    n_path = 0
    for sid in range(1, len(streams) + 1):
        st = streams[sid - 1]
        init = canon({"fed": 0, "queue": [], "nd": 0, "last": "init"})
        seen = {init}
        stack = [(init, [], [])]     # (spec state key, real deque content, path of calls)
        while stack:
            key, real_q, path = stack.pop()
            for e in edges.get((sid, key), []):
                n_path += 1
                if e["ev"]["a"] == "feed":
                    k = e["ev"]["k"]
                    chunk = st["stream"][e["src"]["fed"]:e["src"]["fed"] + k]
                    new_q = real_q + [chunk]
                    new_path = path + [{"feed": chunk}]
                else:
                    obs = real_parse(real_q, st["ids"])
                    new_path = path + [{"parse": True}]
                    check(e, obs, "path", [{"chunks": real_q}])
                    new_q = obs["queue"]
                dk = canon(e["dst"])
                if dk not in seen:
                    seen.add(dk)
                    stack.append((dk, new_q, new_path))
    ctx.traces += n_edges + n_path
    ctx.note(f"replayed {n_edges} parse transitions from materialised pre-states and {n_path} transitions along real "
             f"paths over {len(streams)} streams")

    # (3) direction B: random streams, recorded and validated by the trace specification
    bad = ctx.validate_trace("Trace_SpParser", histories(ctx), "histories")
    for i, clause in sorted(bad.items()):
        hist = ctx.trace_history(i)
        e = hist[-1]
        init = hist[0]
        fp = f"parser.parse/{clause}/clean={int(init['clean'])},mode=trace"
        ctx.violation(fp, f"recorded history: {short(shrink({k: e[k] for k in e if k not in ('id',)}), 500)}; "
                          f"the specification disagrees on {clause}",
                      {"kind": "parser-history", "history": hist})
    # (4) the parser calls the repository's own tests make (recorded at their return), judged by the same trace specification
    from .. import repotests
    bad = ctx.validate_trace("Trace_SpParser", repotests.parser_histories(ctx), "repo-tests")
    for i, clause in sorted(bad.items()):
        hist = ctx.trace_history(i)
        ctx.violation(f"parser.parse/{clause}/mode=repo-test",
                      f"parser call made by {hist[0].get('test')}: {short(shrink(hist[-1]), 500)}; the specification disagrees on {clause}",
                      {"kind": "parser-history", "history": hist})
    ctx.exhaustive = True
    ctx.extra["exhaustive_note"] = ("every fragmentation / interleaving of the listed bounded streams with at most 3 pending "
                                    "chunks; random histories beyond")


def long_run_history(ctx):
    """One receive buffer holding well over a thousand complete minimal packets back to back (a dump file, a large read),
    parsed by ONE call."""
    from spacepackets.ccsds.spacepacket import PacketId, PacketType, SpacePacket, SpacePacketHeader, parse_space_packets
    n = 1300
    pid = PacketId(PacketType.TM, False, 0x123)
    stream, packets = bytearray(), []
    for i in range(n):
        raw = SpacePacket(SpacePacketHeader(packet_type=PacketType.TM, apid=0x123, seq_count=i % 16384, data_len=0), None,
                          bytes([i % 251])).pack()
        packets.append(octs(raw))
        stream += raw
    yield {"op": "init", "ids": [pid.raw()], "clean": True}
    dq = collections.deque([bytearray(stream)])
    yield {"op": "feed", "chunk": octs(stream)}
    res = outcome(lambda: {"out": [octs(p) for p in parse_space_packets(dq, [pid])]})
    yield {"op": "parse", "out": res.get("out", [[-1]]), "queue": [octs(c) for c in dq]}
    yield {"op": "end", "packets": packets}


def histories(ctx):
    yield from long_run_history(ctx)
    yield from histories_random(ctx)


def histories_random(ctx):
    from spacepackets.ecss.tc import PusTc
    from spacepackets.ecss.tm import PusTm
    from spacepackets.ccsds.spacepacket import PacketId, PacketType
    rng = ctx.rng
    nh = ctx.q(1500, 20000)       # (60 000 took well over an hour once packets around every 256-octet boundary were added)
    from spacepackets.ccsds.spacepacket import SpacePacket, SpacePacketHeader, SequenceFlags
    for h in range(nh):
        apids = rng.sample(range(0, 2047), 3)
        # 1..3 registered packet IDs of mixed type / secondary-header flag (PUS packets and plain space packets)
        kinds = rng.sample([("tc", PacketType.TC, True, apids[0]), ("tm", PacketType.TM, True, apids[1]),
                            ("sp", rng.choice([PacketType.TC, PacketType.TM]), False, apids[2])], rng.randrange(1, 4))
        ids = [PacketId(t, shf, ap).raw() for _, t, shf, ap in kinds]
        r_ = rng.random()
        if r_ < 0.15:
            # the same ID registered twice (two objects of one application) - or four times
            ids = ids + [ids[0]] * rng.choice([1, 1, 3])
        elif r_ < 0.3:
            # the TC and the TM identifier of ONE application (same APID, other type / secondary header flag): only the
            # registered ones count
            k0, t0, shf0, ap0 = kinds[0]
            other = PacketId(PacketType.TM if t0 == PacketType.TC else PacketType.TC, not shf0 if rng.random() < 0.5 else shf0, ap0).raw()
            if other not in ids:
                ids.insert(rng.randrange(len(ids) + 1), other)
        clean = rng.random() < 0.7
        stream = bytearray()
        packets = []
        filler = set()
        idset = set(ids)
        npk = rng.randrange(1, ctx.q(8, 30))
        for _ in range(npk):
            at = len(stream)
            n = rng.choice([0, 0, 1, 2, 5, 20, rng.randrange(0, 280)])
            if rng.random() < 0.12:
                # length-field boundaries: data fields just below / at / above a multiple of 256 octets (the length field is
                # two octets, a carry between them is where length arithmetic goes wrong)
                n = rng.choice([256, 512, 768, 1024, 1280, 1536, 2048] + ([4096, 8192] if ctx.thorough else [])) - rng.randrange(0, 26)
            data = bytes(rng.choice([0x18, 0x08, apids[0] & 0xFF, ids[0] >> 8, ids[0] & 0xFF, rng.randrange(256)]) for _ in range(n))
            k, t, shf, ap = rng.choice(kinds)
            if k == "tc":
                stream += PusTc(service=17, subservice=1, apid=ap, seq_count=rng.randrange(16384), app_data=data).pack()
            elif k == "tm":
                stream += PusTm(service=17, subservice=2, apid=ap, seq_count=rng.randrange(16384),
                                timestamp=bytes(rng.choice([0, 7])), source_data=data).pack()
            else:
                ud = data or bytes([rng.randrange(256)])          # at least one octet: the 7-octet minimal packet
                hdr = SpacePacketHeader(packet_type=t, apid=ap, seq_count=rng.randrange(16384), data_len=len(ud) - 1,
                                        sec_header_flag=False, seq_flags=SequenceFlags(rng.randrange(4)))
                stream += SpacePacket(hdr, None, ud).pack()
            packets.append(octs(stream[at:]))
            if not clean and rng.random() < 0.5:
                f0 = len(stream)
                if len(ids) > 1 and rng.random() < 0.3:
                    # junk that looks half like one registered ID and half like another (first octet of one, second octet of
                    # the other): a packet ID is the whole 13-bit word
                    a_, b_ = rng.sample(ids, 2)
                    mixed = ((a_ >> 8) << 8) | (b_ & 0xFF)
                    if mixed not in idset:
                        stream += bytes([mixed >> 8, mixed & 0xFF]) * rng.randrange(1, 4)
                    else:
                        stream += b"\xff"
                else:
                    stream += bytes([rng.choice([0xFF, 0xFF, 0xE7, 0x00])]) * rng.randrange(1, 12)
                filler.update(range(f0, len(stream)))
        # a filler octet must not be able to start a registered packet ID together with its right neighbour; otherwise the
        # stream is ambiguous and only the per-call comparison applies (no end-of-history delivery check)
        ambiguous = any(i + 1 < len(stream) and ((stream[i] << 8 | stream[i + 1]) & 0x1FFF) in idset for i in filler)
        mutate_ids = len(ids) > 1 and rng.random() < 0.25
        if mutate_ids:
            ambiguous, clean = True, False      # packets of an ID that is not registered at the time are filler
        yield {"op": "init", "ids": ids, "clean": clean}
        dq = collections.deque()
        pids = [PacketId.from_raw(i) for i in ids]
        pos = 0
        from spacepackets.ccsds.spacepacket import parse_space_packets
        while pos < len(stream):
            k = rng.choice([1, 2, 3, 5, 6, 7, 8, 13, rng.randrange(1, 40), rng.randrange(1, 400)])
            chunk = stream[pos:pos + k]
            pos += len(chunk)
            dq.append(bytearray(chunk))
            yield {"op": "feed", "chunk": octs(chunk)}
            if mutate_ids and rng.random() < 0.15:
                # the caller keeps ONE list object and changes it in place: drop an ID, or (re-)register one
                if len(pids) > 1 and rng.random() < 0.5:
                    pids.pop(rng.randrange(len(pids)))
                else:
                    cand = [PacketId.from_raw(i) for i in ids if all(i != q.raw() for q in pids)]
                    if cand:
                        pids.append(rng.choice(cand))
                yield {"op": "set_ids", "ids": [q.raw() for q in pids]}
            if rng.random() < 0.5 or pos >= len(stream):
                res = outcome(lambda: {"out": [octs(p) for p in parse_space_packets(dq, pids)]})
                out = res.get("out", [[-1]])
                yield {"op": "parse", "out": out, "queue": [octs(c) for c in dq]}
        if not ambiguous:
            yield {"op": "end", "packets": packets}


def replay(r):
    if r["kind"] == "parser-path":
        obs = real_parse(r["path"][-1]["chunks"], r["ids"])
        ok = obs.get("out") == r["expected_out"] and (r["expected_tail"] is None or flat(obs["queue"]) == r["expected_tail"])
        return ok, (f"deque chunks {short(r['path'][-1]['chunks'], 600)}\n expected packets {short(r['expected_out'], 600)}"
                    f"\n expected tail {short(r['expected_tail'], 300)}\n observed {short(obs, 900)}")
    # recorded history: re-run the same calls on the real parser and compare with the reference Scan in Python
    import collections as c
    from spacepackets.ccsds.spacepacket import parse_space_packets, PacketId
    hist = r["history"]
    dq = c.deque()
    pids = [PacketId.from_raw(i) for i in hist[0]["ids"]]
    ok = True
    text = []
    for e in hist[1:]:
        if e["op"] == "feed":
            dq.append(bytearray(e["chunk"]))
        else:
            before = [octs(x) for x in dq]
            out = [octs(p) for p in parse_space_packets(dq, pids)]
            text.append(f"parse: queue {short(before, 200)} -> out {short(out, 200)} left {short([octs(x) for x in dq], 200)}")
    # the last parse is the rejected one: total fed octets must be conserved for clean streams
    fed = [b for e in hist[1:] if e["op"] == "feed" for b in e["chunk"]]
    dq2 = c.deque()
    got = []
    for e in hist[1:]:
        if e["op"] == "feed":
            dq2.append(bytearray(e["chunk"]))
        else:
            got += [b for p in parse_space_packets(dq2, pids) for b in p]
    rest = [b for x in dq2 for b in x]
    if hist[0]["clean"] and got + rest != fed:
        ok = False
        text.append(f"octets lost: fed {len(fed)}, delivered {len(got)}, kept {len(rest)}")
    return ok, "\n".join(text[-6:])
