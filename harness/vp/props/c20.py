"""C20 - unsigned byte fields keep value, width and big-endian bytes coherent."""
from ..ops import perform, record

RULE = ("A: TLC grid - widths {0,1,2,4,8} x value grids (all 256 values for width 1, boundary patterns otherwise) x construction "
        "routes (base class, width-dispatching generator, ByteFieldU8/16/32/64/Empty), refusals (negative, too large by 1, "
        "unsupported widths 3/5/6/7/9/16), from-bytes routes x every input length 0..10, value assignment by int and by octets, "
        "equality/hash matrix over widths x values, conversion helpers incl. two's complement. B: recorded calls validated by "
        "TLC - EXHAUSTIVE for widths 0, 1, 2 (1 + 256 + 65 536 values: construct, octet / int / len / hex views, from_bytes "
        "back, ==, hash), random over the full 32/64-bit range for widths 4 and 8, random from-bytes inputs, assignments, "
        "equality pairs (equal values of different widths included), helper conversions over the accepted range. "
        "distinct = distinct (op, args).")


def classify(e):
    a, op = e["a"], e["op"]
    if op == "bf.new":
        return f"w={a['w']},via={a.get('via')},neg={int(a['x']['neg'])}"
    if op == "bf.from_bytes":
        return f"route={a['route']},w={a['w']},len={min(len(a['octets']), 9)}"
    if op == "bf.set":
        return f"w={a['w']},by={a['by']}"
    if op.startswith("ibc"):
        return f"w={a['w']},neg={int(a['x']['neg'])}"
    return ""


def mag(v):
    return list(v.to_bytes(max(1, (v.bit_length() + 7) // 8), "big"))


def rnd_val(rng, w):
    if w == 0:
        return 0
    return rng.choice([0, 1, (1 << (8 * w)) - 1, 1 << (8 * w - 1), rng.randrange(1 << (8 * w)), rng.randrange(1 << (8 * w))])


def events(ctx):
    rng = ctx.rng
    yield record("bf.new", {"w": 0, "x": {"neg": False, "mag": []}, "via": "ctor"})
    for v in range(256):
        yield record("bf.new", {"w": 1, "x": {"neg": False, "mag": [v]}, "via": ("ctor", "gen", "cls")[v % 3]})
    for v in range(65536):
        yield record("bf.new", {"w": 2, "x": {"neg": False, "mag": [v >> 8, v & 255]}, "via": ("ctor", "gen", "cls")[v % 3]})
    for _ in range(ctx.q(10000, 500000)):
        w = rng.choice([4, 8])
        k = rng.random()
        if k < 0.85:
            x = {"neg": False, "mag": mag(rnd_val(rng, w))}
        elif k < 0.92:
            x = {"neg": True, "mag": mag(rng.randrange(1, 1 << (8 * w)))}
        else:
            x = {"neg": False, "mag": mag((1 << (8 * w)) + rng.choice([0, 1, rng.randrange(1 << 70)]))}
        yield record("bf.new", {"w": w, "x": x, "via": rng.choice(["ctor", "gen", "cls"])})
    for _ in range(ctx.q(6000, 300000)):
        b = [rng.randrange(256) for _ in range(rng.randrange(0, 11))]
        route = rng.choice(["base", "gen", "cls"])
        w = rng.choice([1, 2, 4, 8]) if route != "gen" else rng.choice([0, 1, 2, 3, 4, 5, 8, 9])
        yield record("bf.from_bytes", {"route": route, "w": 0 if route == "base" else w, "octets": b})
    for _ in range(ctx.q(6000, 300000)):
        w = rng.choice([1, 2, 4, 8])
        v0 = list(rnd_val(rng, w).to_bytes(w, "big"))
        if rng.random() < 0.5:
            k = rng.random()
            v = rnd_val(rng, w) if k < 0.8 else (1 << (8 * w)) + rng.randrange(3)
            x = {"neg": k > 0.93, "mag": mag(v)}
            yield record("bf.set", {"w": w, "v0": v0, "by": "int", "x": x, "octets": []})
        else:
            b = [rng.randrange(256) for _ in range(rng.choice([0, 1, w - 1, w, w, w + 1, w + 5]))]
            yield record("bf.set", {"w": w, "v0": v0, "by": "bytes", "x": {"neg": False, "mag": []}, "octets": b})
    for _ in range(ctx.q(6000, 300000)):
        w1 = rng.choice([0, 1, 2, 4, 8])
        v1 = rnd_val(rng, w1)
        k = rng.randrange(4)
        if k == 0:
            w2, v2 = w1, v1
        elif k == 1:                      # same numeric value, other width
            w2 = rng.choice([1, 2, 4, 8])
            v2 = v1 if v1 < (1 << (8 * w2)) else rnd_val(rng, w2)
        elif k == 2:
            w2, v2 = w1, rnd_val(rng, w1)
        else:
            w2 = rng.choice([0, 1, 2, 4, 8])
            v2 = rnd_val(rng, w2)
        yield record("bf.eq", {"w1": w1, "v1": list(v1.to_bytes(w1, "big")), "w2": w2, "v2": list(v2.to_bytes(w2, "big"))})
    # unequal 64-bit values that are congruent modulo a Mersenne prime / a power of two (equality decided through a hash or a
    # truncated view would call them equal)
    for _ in range(ctx.q(400, 20000)):
        m = rng.choice([2 ** 61 - 1, 2 ** 31 - 1, 2 ** 32, 2 ** 63, 2 ** 61, 2 ** 62, 2 ** 13 - 1])
        v1 = rng.randrange(0, min(m, 2 ** 64))
        k = rng.randrange(1, max(2, (2 ** 64 - 1 - v1) // m + 1))
        v2 = v1 + k * m
        if v2 < 2 ** 64:
            yield record("bf.eq", {"w1": 8, "v1": list(v1.to_bytes(8, "big")), "w2": 8, "v2": list(v2.to_bytes(8, "big"))})
    for _ in range(ctx.q(6000, 300000)):
        w = rng.choice([0, 1, 2, 4, 8])
        yield record("ibc.unsigned", {"w": w, "x": {"neg": False, "mag": mag(rnd_val(rng, w) + (rng.random() < 0.1) * (1 << (8 * w)))}})
        if w:
            lim = (1 << (8 * w - 1)) - 1
            v = rng.choice([0, 1, lim, rng.randrange(lim + 1)])
            yield record("ibc.signed", {"w": w, "x": {"neg": rng.random() < 0.5, "mag": mag(v)}})


def run(ctx):
    ctx.rule = RULE
    ctx.assumptions = ["adapters vp/ops_util.py: constructor calls and attribute reads only; integers travel as sign + magnitude octets",
                       "the empty field is checked for its own views only (from_bytes(b'') may be refused)",
                       "conversion helpers are judged on their accepted range only (|v| <= 2^(8w-1)-1 for to_signed, v >= 0 for to_unsigned)",
                       "hash inequality of unequal fields is not demanded"]
    ctx.replay_vectors("MC_Codec", "MC_Codec.cfg", perform, "grid", classify, consts='CONSTANT Area = "bf"',
                       need_actions=("PickVector",))
    ctx.validate_events(events(ctx), "calls", classify, shard=8000)
    ctx.exhaustive = False
    ctx.extra["exhaustive_fields"] = "widths 0, 1 and 2: every representable value (65 793 fields)"
