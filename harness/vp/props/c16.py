"""C16 - the PUS verification tracker follows its state machine for every report history."""
from __future__ import annotations

import copy

from ..core import canon, short, outcome

RULE = ("A: TLC model-checks Verificator.tla exhaustively (2 telecommands, step ids {1,2}, step list <= 2: every history of "
        "add_tc / add_tm(sub 1..8) / remove_entry / remove_completed) against 12 invariants / action properties; the "
        "transitions of the emission configuration (2 TCs, step id {1}, step list <= 1; quick: TC 2 limited to one absorbed "
        "report) are executed edge by edge on real PusVerificator objects (depth-first, deepcopy per edge), comparing the "
        "returned value and the whole verif_dict; reports are real Service1Tm objects, every second one passed through "
        "pack -> unpack. B: random histories over 1..6 TCs recorded from the real object and validated by Trace_Verificator. "
        "distinct = distinct (pre-state, call) edges + distinct recorded events.")

ABSENT = {"absent": True}


class World:
    """Real objects for the abstract telecommands 1..n."""

    def __init__(self, n):
        from spacepackets.ecss.tc import PusTc
        from spacepackets.ecss.req_id import RequestId
        # (acknowledgement flags differ per telecommand, one asks for no success reports at all: the tracker's transition
        # function does not look at them)
        self.tcs = {t: PusTc(service=17, subservice=1, apid=0x10 + t, seq_count=(t * 1237) % 16384,
                             ack_flags=[0b0000, 0b1111, 0b0001, 0b1000, 0b0110, 0b1001][(t - 1) % 6]) for t in range(1, n + 1)}
        self.rid = {t: RequestId.from_pus_tc(tc) for t, tc in self.tcs.items()}
        self.n = n
        self.flip = 0

    def report(self, t, sub, k):
        from spacepackets.ecss import pus_1_verification as s1
        from spacepackets.ecss.fields import PacketFieldEnum
        tc = self.tcs[t]
        stamp = bytes(7)
        fn = s1.FailureNotice(PacketFieldEnum(8, 3), b"\x01\x02")
        step = PacketFieldEnum(8, k)
        tm = {1: lambda: s1.create_acceptance_success_tm(5, tc, stamp),
              2: lambda: s1.create_acceptance_failure_tm(5, tc, fn, stamp),
              3: lambda: s1.create_start_success_tm(5, tc, stamp),
              4: lambda: s1.create_start_failure_tm(5, tc, fn, stamp),
              5: lambda: s1.create_step_success_tm(5, tc, step, stamp),
              6: lambda: s1.create_step_failure_tm(5, tc, step, fn, stamp),
              7: lambda: s1.create_completion_success_tm(5, tc, stamp),
              8: lambda: s1.create_completion_failure_tm(5, tc, fn, stamp)}[sub]()
        self.flip += 1
        if self.flip % 2 == 0:
            tm = s1.Service1Tm.unpack(bytes(tm.pack()), s1.UnpackParams(7, 1, 1))
        elif self.flip % 3 == 0:
            # the report is built around ONE request-ID object the application keeps and re-fills for every report (its
            # fields are public): the tracker must go by what the object holds now
            tm = s1.Service1Tm(apid=5, subservice=s1.Subservice(sub), timestamp=stamp,
                               verif_params=s1.VerificationParams(self.lookup_rid(t), step if sub in (5, 6) else None,
                                                                  fn if sub % 2 == 0 else None))
        return tm

    def lookup_rid(self, t):
        from spacepackets.ecss.req_id import RequestId
        from spacepackets.ccsds.spacepacket import PacketId, PacketSeqCtrl
        src = self.rid[t]
        if getattr(self, "shared", None) is None:
            self.shared = RequestId(PacketId(src.tc_packet_id.ptype, src.tc_packet_id.sec_header_flag, 0x7FF),
                                    PacketSeqCtrl(src.tc_psc.seq_flags, 0x3FFF), 0)
            {self.shared: 1}                      # used as a key once before it is re-filled
        r = self.shared
        r.tc_packet_id = PacketId(src.tc_packet_id.ptype, src.tc_packet_id.sec_header_flag, src.tc_packet_id.apid)
        r.tc_psc = PacketSeqCtrl(src.tc_psc.seq_flags, src.tc_psc.seq_count)
        r.ccsds_version = src.ccsds_version
        return r

    def ghost_report(self, t, sub, k, how):
        """a report for a request ID that equals TC t's except for one group of bits"""
        from spacepackets.ecss import pus_1_verification as s1
        from spacepackets.ecss.fields import PacketFieldEnum
        from spacepackets.ecss.req_id import RequestId
        from spacepackets.ccsds.spacepacket import PacketId, PacketSeqCtrl, PacketType, SequenceFlags
        rid = self.rid[t]
        pid, psc, ver = rid.tc_packet_id, rid.tc_psc, rid.ccsds_version
        if how == "version":
            ver = 1 + (k + t) % 7
        elif how == "type":
            pid = PacketId(PacketType.TM, pid.sec_header_flag, pid.apid)
        elif how == "shf":
            pid = PacketId(pid.ptype, not pid.sec_header_flag, pid.apid)
        elif how == "flags":
            psc = PacketSeqCtrl(SequenceFlags((int(psc.seq_flags) + 1 + k) % 4 if (int(psc.seq_flags) + 1 + k) % 4 != int(psc.seq_flags)
                                              else (int(psc.seq_flags) + 1) % 4), psc.seq_count)
        elif how == "version+count":       # version bits that are already set in the sequence control word
            ver, psc = 6, PacketSeqCtrl(SequenceFlags.UNSEGMENTED, psc.seq_count)
        ghost = RequestId(pid, psc, ver)
        fn = s1.FailureNotice(PacketFieldEnum(8, 3), b"\x01\x02") if sub % 2 == 0 else None
        step = PacketFieldEnum(8, max(k, 1)) if sub in (5, 6) else None
        tm = s1.Service1Tm(apid=5, subservice=s1.Subservice(sub), timestamp=bytes(7),
                           verif_params=s1.VerificationParams(ghost, step, fn))
        self.flip += 1
        if self.flip % 2 == 0:
            tm = s1.Service1Tm.unpack(bytes(tm.pack()), s1.UnpackParams(7, 1, 1))
        return tm

    def status(self, s):
        return {"all": bool(s.all_verifs_recvd), "acc": int(s.accepted), "sta": int(s.started), "stp": int(s.step),
                "steps": [int(x) for x in s.step_list], "cmp": int(s.completed)}

    def project(self, v):
        d = v.verif_dict
        out = []
        for t in range(1, self.n + 1):
            out.append(self.status(d[self.rid[t]]) if self.rid[t] in d else dict(ABSENT))
        extra = len([k for k in d if all(k != r for r in self.rid.values())])
        if extra:
            out.append({"extra_keys": extra})
        return out

    def call(self, v, ev):
        """Perform the call named by the abstract event on the real tracker; return abstract ret."""
        a = ev["a"] if "a" in ev else ev["op"]
        if a == "add_tc":
            return bool(v.add_tc(self.tcs[ev["t"]]))
        if a == "add_tm":
            r = v.add_tm(self.report(ev["t"], ev["sub"], ev["k"]))
            if r is None:
                return {"none": True}
            return {"completed": bool(r.completed), "status": self.status(r.status)}
        if a == "ghost_tm":
            r = v.add_tm(self.ghost_report(ev["t"], ev["sub"], ev["k"], ev["how"]))
            if r is None:
                return {"none": True}
            return {"completed": bool(r.completed), "status": self.status(r.status)}
        if a == "remove_entry":
            self.flip += 1
            return bool(v.remove_entry(self.lookup_rid(ev["t"]) if self.flip % 2 else self.rid[ev["t"]]))
        if a == "remove_completed":
            v.remove_completed_entries()
            return "none"
        raise ValueError(a)


def run(ctx):
    from spacepackets.ecss.pus_verificator import PusVerificator
    ctx.rule = RULE
    ctx.assumptions = ["the transition function in Verificator.tla is the documented one (class docstring + TmCheckResult notes)",
                       "deepcopy of a PusVerificator yields an independent object with the same state"]
    # (0) the large configuration: design-level model checking only (no emission)
    ctx.explore_graph("MC_Verificator", "MC_Verificator.cfg", "tracker-large", lambda e: None,
                      consts="CONSTANT TCs = {1,2}\nCONSTANT StepIds = {1,2}\nCONSTANT MaxSteps = 2\nCONSTANT Lim2 = 99",
                      workers=16, need_actions=("AddTc", "AddTmAny", "RemoveEntry", "RemoveCompleted"))
    # (1) emission configuration, every edge executed on the real object
    edges = {}

    def on_edge(e):
        edges.setdefault(canon(e["src"]), []).append(e)

    lim2 = 99 if ctx.thorough else 1
    ctx.explore_graph("MC_Verificator", "MC_Verificator.cfg", "tracker-emit", on_edge,
                      consts=f"CONSTANT TCs = {{1,2}}\nCONSTANT StepIds = {{1}}\nCONSTANT MaxSteps = 1\nCONSTANT Lim2 = {lim2}\n"
                             "CONSTRAINT Bound2\nACTION_CONSTRAINT Emit", workers=1)
    w = World(2)
    init = canon([ABSENT, ABSENT])
    seen = {init}
    stack = [(init, PusVerificator(), [])]
    n = 0
    while stack:
        key, real, path = stack.pop()
        for e in edges.get(key, []):
            n += 1
            v = copy.deepcopy(real)
            ev = e["ev"]
            obs = outcome(lambda: {"ret": w.call(v, ev)})
            post = w.project(v)
            ctx.count(canon([e["src"], ev.get("a"), ev.get("t"), ev.get("sub"), ev.get("k")]))
            exp_ret = ev.get("ret", "none")
            if isinstance(exp_ret, dict) and "completed" in exp_ret:
                exp_ret = dict(exp_ret, status=e["dst"][ev["t"] - 1])
            clause = None
            if "exc" in obs:
                clause = "exc"
            elif obs["ret"] != exp_ret:
                clause = "ret"
            elif post != e["dst"]:
                clause = "state"
            if n % 4001 == 1:
                ctx.sample({"pre": e["src"], "call": ev, "post": e["dst"]})
            if clause:
                fp = f"verif.{ev['a']}/{clause}/sub={ev.get('sub', '-')}"
                ctx.violation(fp, f"after {len(path)} calls, {short(ev)} on {short(e['src'])}: specification gives "
                                  f"{short(e['dst'])}, code gave ret={short(obs)} state={short(post)}",
                              {"kind": "verif-path", "n": 2, "path": path + [ev], "expected_state": e["dst"],
                               "expected_ret": exp_ret})
            # the real object is explored once per (specification state, kind and telecommand of the call that led there):
            # hidden state that remembers the last call (a lookup cache) shows on the call after it, whatever state it is
            dk = canon(e["dst"])
            nk = dk + "|" + str(ev.get("a")) + str(ev.get("t", ""))
            if nk not in seen and not clause:
                seen.add(nk)
                stack.append((dk, v, path + [ev]))
    ctx.traces += n
    ctx.note(f"replayed {n} transitions ({len(seen)} states) of the emission configuration on real PusVerificator objects")
    # (2) direction B
    bad = ctx.validate_trace("Trace_Verificator", histories(ctx), "histories")
    for i, clause in sorted(bad.items()):
        hist = ctx.trace_history(i)
        e = hist[-1]
        fp = f"verif.{e['op']}/{clause}/sub={e.get('sub', '-')},mode=trace"
        ctx.violation(fp, f"recorded history of {len(hist)} calls: {short(e)} disagrees with the specification on {clause}",
                      {"kind": "verif-history", "history": hist})
    # (2b) the tracker histories of the repository's own tests (every call recorded at its return)
    from .. import repotests
    bad = ctx.validate_trace("Trace_Verificator", repotests.tracker_histories(ctx), "repo-tests")
    for i, clause in sorted(bad.items()):
        hist = ctx.trace_history(i)
        e = hist[-1]
        ctx.violation(f"verif.{e['op']}/{clause}/sub={e.get('sub', '-')},mode=repo-test",
                      f"tracker history of {hist[0].get('test')} ({len(hist)} calls): {short(e)} disagrees with the specification on {clause}",
                      {"kind": "verif-repo-history", "history": hist})
    # (3) the tracker inside the end-to-end session (Link.tla)
    from .. import link
    link.run_stage(ctx)
    ctx.exhaustive = True
    ctx.extra["exhaustive_note"] = "all histories of the bounded configurations; random histories (<= 200 calls, <= 6 TCs) beyond"


def histories(ctx):
    from spacepackets.ecss.pus_verificator import PusVerificator
    rng = ctx.rng
    for h in range(ctx.q(1500, 60000)):
        n = rng.randrange(1, 7)
        w = World(n)
        v = PusVerificator()
        yield {"op": "init", "n": n, "ret": "none", "tab": w.project(v)}
        for _ in range(rng.randrange(5, ctx.q(80, 200))):
            r = rng.random()
            t = rng.randrange(1, n + 1)
            if r < 0.2:
                ev = {"op": "add_tc", "t": t}
            elif r < 0.88:
                sub = rng.choice([1, 3, 5, 7, rng.randrange(1, 9), rng.randrange(1, 9)])
                ev = {"op": "add_tm", "t": t, "sub": sub, "k": rng.randrange(1, 5) if sub in (5, 6) else 0}
            elif r < 0.92:
                sub = rng.randrange(1, 9)
                ev = {"op": "ghost_tm", "t": t, "sub": sub, "k": rng.randrange(1, 5) if sub in (5, 6) else 0,
                      "how": rng.choice(["version", "version", "type", "shf", "flags", "version+count"])}
            elif r < 0.96:
                ev = {"op": "remove_entry", "t": t}
            else:
                ev = {"op": "remove_completed"}
            res = outcome(lambda: {"ret": w.call(v, ev)})
            ev["ret"] = res.get("ret", {"exc": res.get("exc")})
            ev["tab"] = w.project(v)
            yield ev


def replay(r):
    from spacepackets.ecss.pus_verificator import PusVerificator
    if r["kind"] == "link-path":
        from .. import link
        return link.replay(r)
    if r["kind"] == "verif-path":
        w = World(r["n"])
        v = PusVerificator()
        ret = None
        for ev in r["path"]:
            ret = w.call(v, ev)
        post = w.project(v)
        ok = post == r["expected_state"] and ret == r["expected_ret"]
        return ok, (f"path {short(r['path'], 1200)}\n expected ret {short(r['expected_ret'])} state {short(r['expected_state'], 600)}"
                    f"\n observed ret {short(ret)} state {short(post, 600)}")
    if r["kind"] == "verif-repo-history":
        from .. import repotests

        class C:
            def workdir(self, name):
                import tempfile
                return tempfile.mkdtemp(prefix="vp-" + name)
        repotests._CACHE.clear()
        hs = [h for h in repotests.record(C())["tracker"] if h["test"] == r["history"][0].get("test")]
        want = [{k: e[k] for k in e if k not in ("id", "test")} for e in r["history"][1:]]
        same = any([dict(e, tab=e["tab"]) for e in h["events"]][:len(want)] == [dict(w_, tab=w_["tab"][:len(e["tab"])]) for w_, e in zip(want, h["events"])] for h in hs)
        return (not same), (f"history of {r['history'][0].get('test')} re-recorded: the rejected call "
                            f"{short(r['history'][-1], 600)} is {'still' if same else 'no longer'} observed")
    hist = r["history"]
    w = World(hist[0]["n"])
    v = PusVerificator()
    ok = True
    last = None
    for ev in hist[1:]:
        ret = w.call(v, ev)
        last = (ev, ret, w.project(v))
    ev, ret, post = last
    # compare against the reference transition function re-stated in python for the last call
    return (ret == ev["ret"] and post == ev["tab"]) and False, \
        f"last call {short(ev, 600)}\n observed now ret={short(ret)} state={short(post, 600)}\n(see Trace_Verificator for the expected value)"
