"""C10 - decoding arbitrary or truncated input fails only in documented ways."""
from ..ops import perform, record
from .c09 import rnd_unit

RULE = ("A: TLC grid - for every public decode entry point (space packet header, APID reader, PUS TC + data field header, TM + "
        "secondary header + service reader, service 17 and service 1 wrappers, request ID, enumerated field, failure notice, "
        "three CDS routes, byte-field routes, CFDP header + length reader + directive base, the eight PDU class decoders, "
        "factory from_raw / from_raw_to_holder / three inspectors, LV, TLV, six concrete TLVs, USLP primary / truncated header, "
        "header-type reader, data field, frame): EVERY truncation point of sample units (a strict prefix of a unit the "
        "specification's decoder accepts exactly must be refused - Inv_PrefixRejected also holds on the specification), "
        "single-octet substitutions {00,01,7F,80,FF} in the header / length / type octets, substitutions combined with cuts, "
        "every PDU kind through every other kind's decoder, decoder-side widths / timestamp lengths other than the sender's. "
        "B: recorded calls validated by TLC - seeded random octet strings (length <= 64, thorough <= 512) into every entry "
        "point, random valid units cut at random points and with random octet substitutions. Outcome must be an object or a "
        "documented error family (ValueError incl. subclasses, CRC errors, unsupported version, TLV type mismatch, USLP "
        "errors) within 5 s; anything else (IndexError, struct.error, TypeError, AttributeError, KeyError, AssertionError, "
        "timeout) is a violation. non-trivial = every input (the trivial refusals are the point); distinct = distinct (entry "
        "point, input).")

PLAIN = ["sph", "sp.apid", "tc", "tcsh", "tm.svc", "reqid", "cds", "cds.raw", "cds.read", "bf.base", "cfdphdr", "cfdp.hlen", "fdir",
         "fac", "fac.holder", "fac.ptype", "fac.isdir", "fac.dtype", "lv", "tlv", "uslp.hdr", "uslp.thdr", "uslp.htype"]
PDUK = ["eof", "finished", "ack", "metadata", "nak", "prompt", "keepalive", "filedata"]
CTLV = ["entity", "flow", "fault", "fsreq", "fsresp", "msg"]


def classify(e):
    a = e["a"]
    bits = [a["ep"]]
    if a["ep"] == "pdu":
        bits.append(a["par"]["want"])
    o = e.get("o")
    if isinstance(o, dict) and "exc" in o:
        bits.append(o["exc"])
    else:
        bits.append("accepted")
    return ",".join(bits)


def all_eps(rng):
    """(ep, par) for one random choice of every parameterised entry point"""
    out = [(ep, {"none": 0}) for ep in PLAIN]
    ts = rng.choice([0, 0, 7, 7, 1, 16])
    out += [("tm", {"tslen": ts, "stepw": 1, "errw": 1}), ("srv17", {"tslen": ts, "stepw": 1, "errw": 1}),
            ("tmsh", {"tslen": ts, "stepw": 1, "errw": 1}),
            ("srv1", {"tslen": ts, "stepw": rng.choice([1, 2, 4, 8]), "errw": rng.choice([1, 2, 4, 8])}),
            ("pfe", {"pfc": rng.choice([8, 16, 32, 64, 0, 24])}), ("fn", {"errw": rng.choice([1, 2, 4, 8])}),
            ("bf.gen", {"w": rng.choice([1, 2, 4, 8, 3, 0])}), ("bf.cls", {"w": rng.choice([1, 2, 4, 8])})]
    out += [("pdu", {"want": k}) for k in PDUK]
    out += [("ctlv." + c, {"cls": c}) for c in CTLV]
    ft = rng.choice(["fixed", "var"])
    mp = {"ftype": ft, "iz": rng.choice([[], [2]]), "fecf": rng.choice([[], [2], [4]]), "trunclen": rng.choice([0, 8, 12]),
          "fixedlen": rng.choice([0, 12, 20]) if ft == "fixed" else 0}
    out += [("uslp.frame", {"mp": mp}),
            ("uslp.tfdf", {"trunc": rng.randrange(2), "exact": rng.randrange(0, 12), "ftype": rng.choice(["fixed", "var", "none"])})]
    return out


def likely_header(rng, ep):
    """bias the first octets so that inputs get past the version / type checks"""
    if ep.startswith("uslp"):
        return [0xC0 | rng.randrange(16), rng.randrange(256), rng.randrange(256), rng.randrange(256), 0, rng.randrange(24),
                rng.randrange(256)]
    if ep in ("pdu", "fac", "fac.holder", "fdir", "cfdphdr", "cfdp.hlen", "fac.ptype", "fac.isdir", "fac.dtype"):
        w = rng.choice([0, 0, 1, 3, 7])
        s = rng.choice([0, 0, 1, 3])
        return [0x20 | rng.randrange(32), 0, rng.randrange(40), (w << 4) | s | (rng.randrange(2) << 3)] + \
               [rng.randrange(256) for _ in range(2 * (w + 1) + s + 1)] + [rng.choice([4, 5, 6, 7, 8, 9, 12, rng.randrange(256)])]
    if ep in ("tc", "tm", "srv1", "srv17", "sph"):
        n = rng.randrange(0, 40)
        return [0x08 | (0x10 if ep == "tc" else 0) | rng.randrange(8), rng.randrange(256), 0xC0 | rng.randrange(64), rng.randrange(256),
                0, n, 0x20 | rng.randrange(16), rng.choice([1, 17, rng.randrange(256)]), rng.randrange(1, 11)]
    if ep.startswith("ctlv") or ep == "tlv":
        return [rng.choice([0, 1, 2, 4, 5, 6]), rng.randrange(0, 12)]
    if ep.startswith("cds"):
        return [rng.choice([0x40, 0x40, 0x44, 0x50, rng.randrange(256)])]
    return []


def stretched_pdus(ctx):
    """Consistent LENGTHENING: a packed PDU whose variable part is continued with well-formed items a foreign sender may
    add - very many small TLVs, the same TLV twice or three times, TLVs of another kind in between, many segment requests -
    with the data field length raised accordingly and the CRC recomputed.  Accepting or refusing is both fine; RecursionError,
    any other undocumented exception or a decoder that does not come back is not."""
    from ..ops_cfdp import mk_pdu
    from .c02 import crc16
    rng = ctx.rng
    ent = lambda v: [6, len(v)] + v
    msg = lambda v: [2, len(v)] + v
    resp = [1, 5, 0x00, 1, 97, 0, 0][:2] + [0x00, 1, 97, 0]            # create-file response "a", empty message: 01 04 00 01 61 00
    resp = [1, 4, 0x00, 1, 97, 0]
    plans = []
    for n in (1, 2, 3, 40, 400, 1100, 3000) + ((12000,) if ctx.thorough else ()):
        plans.append(("metadata", msg([]) * n))
        plans.append(("metadata", (msg([7]) + ent([1]) + [5, 0]) * (n // 3 + 1)))
    for rep in (2, 3, 5):
        for between in ([], resp, resp * 3, ent([9])):
            plans.append(("finished", (ent([7]) + between) * rep))
            plans.append(("finished", between + ent([1, 2]) * rep))
            plans.append(("eof", ent([7]) * rep + between))
    for n in (600, 2500):
        plans.append(("finished", resp * n))
    for n in (1, 100, 4000):
        plans.append(("nak", [0, 0, 0, 1, 0, 0, 0, 2] * n))
    for kind, extra in plans:
        for crc in (0, 1):
            cfg = {"crc": crc, "large": 0, "mode": 0, "segctrl": 0, "dir": 0, "src": [1], "dst": [2], "seq": [3]}
            params = {"metadata": {"closure": 1, "cktype": 0, "size": [0, 0, 1, 0], "srcname": [97], "dstname": [98], "options": []},
                      "finished": {"cond": 4, "delivery": 1, "status": 1, "responses": [], "fault": []},
                      "eof": {"cond": 4, "checksum": [1, 2, 3, 4], "size": [9], "fault": []},
                      "nak": {"start": [0], "end": [9], "segs": []}}[kind]
            raw = list(bytes(mk_pdu(kind, cfg, params)[0].pack()))
            hl = 7
            body = raw[hl:len(raw) - 2 * crc] + list(extra)
            n = len(body) + 2 * crc
            if n > 65535:
                continue
            b = [raw[0], n >> 8, n & 255] + raw[3:hl] + body
            if crc:
                x = crc16(b)
                b += [x >> 8, x & 255]
            for ep, want in (("pdu", kind), ("fac", "any"), ("fac.holder", "any")):
                yield record("rob.decode", {"ep": ep, "octets": b, "full": [], "par": {"want": want}})


def events(ctx):
    from ..ops_fault import _unit
    rng = ctx.rng
    yield from stretched_pdus(ctx)
    # every value of the 16-bit day field through the time-code decoders of this one process
    for d in range(65536):
        ms = (d * 7919) % 86400000
        yield record("rob.decode", {"ep": "cds" if d % 2 else "cds.read", "octets": [64, d >> 8, d & 255] + list(ms.to_bytes(4, "big")),
                                    "full": [], "par": {"none": 0}})
    maxlen = ctx.q(64, 512)
    for _ in range(ctx.q(1500, 12000)):
        for ep, par in all_eps(rng):
            c = rng.randrange(3)
            if c == 0:
                b = [rng.randrange(256) for _ in range(rng.choice([0, 1, 2, 3, 4, 7, 8, rng.randrange(maxlen)]))]
            else:
                b = likely_header(rng, ep)
                b = b + [rng.randrange(256) for _ in range(rng.randrange(0, 40))]
                if c == 2 and b:
                    b = b[:rng.randrange(len(b) + 1)]
            yield record("rob.decode", {"ep": ep, "octets": b, "full": [], "par": par})
    # valid units cut at random points / with substituted octets, through their own decoder
    EP = {"tc": "tc", "tm": "tm", "srv17": "srv17", "srv1": "srv1", "sph": "sph", "cds": "cds", "reqid": "reqid", "cfdphdr": "cfdphdr",
          "lv": "lv", "tlv": "tlv", "uslphdr": None, "ctlv": None, "pdu": "pdu"}
    for _ in range(ctx.q(30000, 300000)):
        u = rnd_unit(rng)
        k, p = u["k"], u["p"]
        raw = list(bytes(_unit(u)[0]))
        if len(raw) > 400:
            continue
        ep, par = EP[k], {"none": 0}
        if k in ("tm", "srv17"):
            par = {"tslen": len(p["stamp"]), "stepw": 1, "errw": 1}
        elif k == "srv1":
            par = {"tslen": len(p["stamp"]), "stepw": p["step"][0]["w"] if p["step"] else 1, "errw": p["fail"][0]["w"] if p["fail"] else 1}
        elif k == "uslphdr":
            ep, par = ("uslp.thdr" if p["trunc"] else "uslp.hdr"), {"trunc": p["trunc"]}
        elif k == "ctlv":
            ep, par = "ctlv." + p["cls"], {"cls": p["cls"]}
        elif k == "pdu":
            ep, par = rng.choice(["pdu", "fac", "fac.holder"]), {"want": p["kind"]}
            if ep != "pdu":
                par = {"want": "any"}
        c = rng.randrange(3)
        if k == "pdu" and rng.random() < 0.4:
            # consistent shortening: declared data field length and buffer end moved together, CRC recomputed
            hl = 4 + 2 * len(p["cfg"]["src"]) + len(p["cfg"]["seq"])
            crc = p["cfg"]["crc"]
            if len(raw) - hl > 2 * crc:
                n = rng.randrange(2 * crc, len(raw) - hl)
                b = [raw[0], n >> 8, n & 255] + raw[3:hl] + raw[hl:hl + n - 2 * crc]
                if crc:
                    from .c02 import crc16
                    x = crc16(b)
                    b += [x >> 8, x & 255]
                yield record("rob.decode", {"ep": ep, "octets": b + [0] * rng.choice([0, 0, 5]), "full": [], "par": par})
                continue
        if c == 0:
            yield record("rob.decode", {"ep": ep, "octets": raw[:rng.randrange(len(raw))] if raw else [], "full": raw, "par": par})
        else:
            b = list(raw)
            for _ in range(rng.choice([1, 1, 2])):
                if b:
                    j = rng.randrange(min(len(b), 24)) if rng.random() < 0.8 else rng.randrange(len(b))
                    b[j] = rng.choice([0, 1, 0x7F, 0x80, 0xFF, (b[j] + 1) % 256, (b[j] - 1) % 256, rng.randrange(256)])
            if c == 2 and b:
                b = b[:rng.randrange(len(b) + 1)]
            yield record("rob.decode", {"ep": ep, "octets": b, "full": [], "par": par})


def run(ctx):
    ctx.rule = RULE
    ctx.assumptions = ["documented families: ValueError and subclasses (BytesTooShortError, TmSrcDataTooShortError, UnicodeDecodeError), "
                       "InvalidTcCrc16 / InvalidTmCrc16 / InvalidCrc, UnsupportedCfdpVersion, TlvTypeMissmatch, the Uslp* errors; the "
                       "factory's None answer counts as refusal", "'never loops' is observed with a 5 s watchdog per call, not proved",
                       "the parameter getters of ReservedCfdpMessage on malformed content are outside this property's anchors"]
    ctx.replay_vectors("MC_Codec", "MC_Codec.cfg", perform, "grid", classify, consts='CONSTANT Area = "rob"',
                       need_actions=("PickVector",))
    ctx.validate_events(events(ctx), "calls", classify, shard=5000)
    ctx.exhaustive = False
