"""C06 - every CFDP file-directive PDU is encoded exactly per 727.0-B-5 and round-trips."""
from ..ops import perform, record
from .cfdp_common import classify, rnd_cfg, rnd_params

DIRECTIVES = ["eof", "finished", "ack", "metadata", "nak", "prompt", "keepalive"]
RULE = ("A: TLC grid - for each of the 7 directives: 2 parameter sets x all 128 header configurations (CRC x large x 16 width "
        "pairs x mode) and the full parameter grid (every condition code / status / checksum type / response enum value, "
        "file-size patterns 0, 256, 2^32-1, 2^32, 2^64-1, 2^64, TLV lists, names) x 9 configurations; round-trip, "
        "data-field-length, trailer, re-pack, suffix and prefix laws are TLC invariants and every vector is executed on the "
        "code. B: recorded round trips with random parameters over the full 32/64-bit range incl. oversize values, "
        "validated by TLC. distinct = distinct (op, args).")


def events(ctx):
    rng = ctx.rng
    from ..core import source_constants
    from ..ops_cfdp import mk_pdu
    for c in source_constants():
        for kind, params in (("eof", {"cond": 0, "checksum": [1, 2, 3, 4], "size": [9], "fault": []}), ("prompt", {"resp": 1}),
                             ("ack", {"acked": 4, "cond": 0, "tstatus": 1})):
            cfg = {"crc": 0, "large": 0, "mode": 0, "segctrl": 0, "dir": 0, "src": [1], "dst": [2], "seq": [3]}
            raw = list(bytes(mk_pdu(kind, cfg, params)[0].pack()))
            yield record("pdu.unpack", {"want": kind, "octets": list(c) + raw})
            yield record("pdu.unpack", {"want": "any", "octets": list(c) + raw[len(c):]})
    for k in DIRECTIVES:
        for _ in range(ctx.q(5000, 300000)):
            cfg = rnd_cfg(rng)
            over = rng.random() < 0.06
            yield record("pdu.rt", {"kind": k, "cfg": cfg, "p": rnd_params(rng, k, cfg["large"], over), **({"via": "setter"} if (not over and rng.random() < 0.2) else {}),
                                    "sfx": [] if rng.random() < 0.75 else [rng.randrange(256) for _ in range(rng.randrange(1, 6))]})


def run(ctx):
    ctx.rule = RULE
    ctx.assumptions = ["adapters vp/ops_cfdp.py build/project PDUs by constructor calls and attribute reads only",
                       "parameter sets are those the standard allows (fault location only with an error condition code)",
                       "oversize file-size-sensitive values must make packing fail with any exception"]
    ctx.symbolic_laws(['Law_PduOctets', 'Law_BigEndian32'])
    ctx.replay_vectors("MC_Codec", "MC_Codec.cfg", perform, "grid", classify, consts='CONSTANT Area = "pdu"',
                       need_actions=("PickVector",))
    ctx.validate_events(events(ctx), "calls", classify, shard=1500)
    from .. import repotests
    repotests.codec_stage(ctx, "C06")       # the calls the repository's own tests make, judged by the specification
    ctx.exhaustive = False
