"""C01 - Space Packet primary header (CCSDS 133.0-B-2), bijective."""
from ..ops import perform, record

RULE = ("A: every vector of the TLC grid (65 536 in-range headers = 8 versions x 2 x 2 x 8 APIDs x 4 x 8 counts x "
        "8 lengths, refusal grid, decoder grid, generic packets) executed on the code; B: recorded calls - every "
        "16-bit value of each of the three header words through unpack, every APID / count / data-length value "
        "through the constructor, random full tuples, random octet strings, out-of-range values - validated by "
        "TLC. distinct = distinct (operation, arguments).")


def classify(e):
    a = e["a"]
    if "h" in a:
        h = a["h"]
        return "inrange" if (0 <= h["apid"] <= 2047 and 0 <= h["count"] <= 16383 and 0 <= h["dlen"] <= 65535) \
            else "outofrange"
    if "octets" in a:
        return "short" if len(a["octets"]) < 6 else "len>=6"
    return ""


def events(ctx):
    rng = ctx.rng
    # inputs that begin with each octet pattern the SOURCE of the tree under test names as a literal (core.source_constants):
    # in front of a valid header, and in place of its first octets
    from ..core import source_constants
    from ..ops_ecss import _mk_hdr
    for c in source_constants():
        for h in ({"ver": 0, "type": 1, "shf": 1, "apid": 0x2CF, "flags": 3, "count": 0x3C1D, "dlen": 4},
                  {"ver": 0, "type": 0, "shf": 0, "apid": 5, "flags": 1, "count": 9, "dlen": 0}):
            raw = list(bytes(_mk_hdr(h).pack()))
            yield record("sph.unpack", {"octets": list(c) + raw + [1, 2, 3, 4]})
            yield record("sph.unpack", {"octets": (list(c) + raw[len(c):] if len(c) < 6 else list(c)[:6]) + [9, 8, 7, 6, 5, 4]})
    base = {"ver": 0, "type": 1, "shf": 0, "apid": 0x42, "flags": 3, "count": 22, "dlen": 12}
    fixed = [0x18, 0x42, 0xC0, 0x16, 0x00, 0x0C]
    # decoder: every value of each header word
    for w in range(3):
        for v in range(65536):
            b = list(fixed)
            b[2 * w], b[2 * w + 1] = v >> 8, v & 0xFF
            yield record("sph.unpack", {"octets": b + ([0xEE] if v % 3 == 0 else [])})
    # constructor: every value of each validated field
    step = 1 if ctx.thorough else 5
    for apid in range(2048):
        yield record("sph.build", {"h": dict(base, apid=apid), "via": "ctor" if apid % 2 else "composite"})
    for cnt in range(0, 16384, step):
        yield record("sph.build", {"h": dict(base, count=cnt), "via": "ctor"})
    for dl in range(0, 65536, step):
        yield record("sph.build", {"h": dict(base, dlen=dl, type=dl & 1, shf=(dl >> 1) & 1), "via": "ctor"})
    for raw in range(0, 65536, step):
        yield record("pid.from_raw", {"raw": raw})
        yield record("psc.from_raw", {"raw": raw})
    # out-of-range values
    for f, mx in (("apid", 2047), ("count", 16383), ("dlen", 65535)):
        for v in [-1, -2, -mx, -mx - 1, mx + 1, mx + 2, 2 * (mx + 1), 2 * (mx + 1) + 1, 1 << 20, (1 << 31) - 1]:
            yield record("sph.build", {"h": dict(base, **{f: v}), "via": "ctor"})
            yield record("sph.build", {"h": dict(base, **{f: v}), "via": "composite"})
    # random full tuples and octet strings
    for _ in range(ctx.q(20000, 1000000)):
        h = {"ver": rng.randrange(8), "type": rng.randrange(2), "shf": rng.randrange(2),
             "apid": rng.randrange(2048), "flags": rng.randrange(4), "count": rng.randrange(16384),
             "dlen": rng.randrange(65536)}
        yield record("sph.build", {"h": h, "via": rng.choice(["ctor", "composite", "mutate", "setters"])})
    for _ in range(ctx.q(10000, 500000)):
        n = rng.choice([0, 1, 5, 6, 6, 6, 7, 8, 13, 20])
        yield record("sph.unpack", {"octets": [rng.randrange(256) for _ in range(n)]})
        yield record("sp.apid_raw", {"octets": [rng.randrange(256) for _ in range(n)]})
    for _ in range(ctx.q(500, 5000)):
        h = dict(base, shf=rng.randrange(2), dlen=rng.randrange(20))
        opt = lambda: [] if rng.random() < 0.3 else [[rng.randrange(256) for _ in range(rng.randrange(6))]]
        yield record("sp.pack", {"h": h, "sec": opt(), "data": opt()})


def run(ctx):
    ctx.rule = RULE
    ctx.assumptions = ["adapters vp/ops_ecss.py project objects by attribute reads only",
                       "TLC evaluates SpacePacket.tla (layout written from CCSDS 133.0-B-2 4.1.3 with div/mod)",
                       "cross products beyond the grid are sampled, single fields/words are exhaustive"]
    ctx.symbolic_laws(['Law_SpacePacket', 'Law_SpacePacketOnto'])
    ctx.replay_vectors("MC_Codec", "MC_Codec.cfg", perform, "grid", classify, consts='CONSTANT Area = "sp"',
                       need_actions=("PickVector",))
    ctx.validate_events(events(ctx), "calls", classify)
    from .. import repotests
    repotests.codec_stage(ctx, "C01")       # the calls the repository's own tests make, judged by the specification
    ctx.exhaustive = False
    ctx.extra["exhaustive_subspaces"] = ["each 16-bit header word through unpack (3 x 65536)",
                                         "every APID through the constructor"] + (
        ["every sequence count and data length through the constructor"] if ctx.thorough else [])
