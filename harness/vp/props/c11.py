"""C11 - lengths track mutations, pack is repeatable, caller inputs are not modified."""
from __future__ import annotations

import copy

from ..core import assign_grown, canon, short, shrink, outcome, octs, first_diff
from ..ops_ecss import mk_tc, mk_tm
from ..ops_cfdp import mk_pdu, pdu_class, mk_fsresp, _snapshot, _i
from ..ops_uslp import mk_frame, mk_props, matching, _ftype

KINDS = ["tc", "tm", "eof", "finished", "metadata", "nak", "filedata", "keepalive", "uslp"]

RULE = ("A: for each of the 9 mutable packet classes TLC explores the complete (finite) lifecycle graph of Lifecycle.tla - every "
        "sequence of the documented setters over the class's argument sets, pack and reload (unpack(pack())), from every "
        "initial object x header configuration (CRC x large-file, one wide-ID configuration) - checking Inv_LenTracks, "
        "Inv_Fresh, Inv_ReloadStable, Act_PackPure, Act_SetLocal; every transition is executed on the real object (deepcopy "
        "per edge): packed octets, reported length, kept length field, octets of a freshly constructed object with the final "
        "values, pack twice, equality across pack, caller's PduConfig / parameter objects. B: random histories (up to 12 "
        "calls, random arguments: data up to 300 octets, up to 4 TLVs / responses / segment requests, non-ASCII names) recorded "
        "from the real objects and validated by Trace_Lifecycle. distinct = distinct (pre-state, call) edges + recorded events.")


class Obj:
    """A real object together with the caller's objects it was built from."""

    def __init__(self, kind, cfg, val):
        self.kind = kind
        self.stamp_len = 0
        self.conf = self.params = None
        self.created_pure = True
        self.sib = self.sib_obs = None
        if kind == "tc":
            self.o = mk_tc(val)
        elif kind == "tm":
            self.o = mk_tm(val)
            self.stamp_len = len(val["stamp"])
        elif kind == "uslp":
            self.o = mk_frame(val)
            self.ftype = "fixed" if val["rule"] <= 2 else "var"
            self.trunc = bool(val["hdr"]["trunc"])
        else:
            self.o, self.conf, self.params, snap = mk_pdu(kind, cfg, val)
            self.created_pure = _snapshot(self.conf, self.params) == snap     # construction left the caller's objects alone
            # a sibling built from the SAME caller configuration object: nothing done to self.o may change it
            self.sib = self._sibling(kind, val)
            self.sib_obs = None if self.sib is None else (octs(self.sib.pack()), int(self.sib.packet_len))

    def _sibling(self, kind, val):
        """second object of the same class constructed from the caller's very same PduConfig object"""
        from spacepackets.cfdp import pdu as P
        from spacepackets.cfdp.defs import ConditionCode
        try:
            if kind == "nak":
                return P.NakPdu(self.conf, _i(val["start"]), _i(val["end"]), [(_i(s), _i(e)) for s, e in val["segs"]])
            if kind == "keepalive":
                return P.KeepAlivePdu(self.conf, _i(val["progress"]))
            if kind == "eof":
                return P.EofPdu(self.conf, bytes(val["checksum"]), _i(val["size"]), None, ConditionCode(val["cond"]))
            if kind == "filedata":
                from spacepackets.cfdp.pdu.file_data import FileDataParams
                return P.FileDataPdu(self.conf, FileDataParams(bytes(val["data"]), _i(val["offset"]), None))
        except Exception:  # noqa
            return None
        return None

    # -- calls ------------------------------------------------------------------
    def pack(self):
        if self.kind == "uslp":
            return self.o.pack(truncated=self.trunc, frame_type=_ftype(self.ftype))
        return self.o.pack()

    def apply(self, ev):
        k, o, a = self.kind, self.o, ev["a"]
        if a == "pack":
            self.pack()
        elif a == "framelen":
            o.set_frame_len_in_header()
        elif a == "flag":
            from spacepackets.cfdp.defs import LargeFileFlag
            # the enum member, or (ev.raw) the plain integer an application read from elsewhere - IntEnum values compare
            # equal to ints and the library accepts them
            o.file_flag = int(ev["x"]) if ev.get("raw") else LargeFileFlag(ev["x"])
        elif a == "reload":
            raw = bytes(self.pack())
            if k == "tc":
                from spacepackets.ecss.tc import PusTc
                self.o = PusTc.unpack(raw)
            elif k == "tm":
                from spacepackets.ecss.tm import PusTm
                self.o = PusTm.unpack(raw, self.stamp_len)
            elif k == "uslp":
                from spacepackets.uslp.frame import TransferFrame
                f = {"iz": [octs(o.insert_zone)] if o.insert_zone is not None else [],
                     "fecf": [octs(o.fecf)] if o.fecf is not None else [], "hdr": {"trunc": int(self.trunc)}}
                self.o = TransferFrame.unpack(raw, _ftype(self.ftype), mk_props(matching(f, self.ftype, len(raw))))
            else:
                self.o = pdu_class(k).unpack(raw)
        elif a == "set":
            f, x = ev["f"], ev["x"]
            if f == "apid":
                o.apid = x
            elif f == "seq":
                o.seq_count = x
            elif k == "tc":
                assign_grown(o, "app_data", x)      # callers also keep data in one growing bytearray
            elif k == "tm":
                assign_grown(o, "tm_data", x)
            elif k == "uslp":
                o.tfdf.tfdz = bytes(x)
            elif f == "fault":
                from spacepackets.cfdp.tlv import EntityIdTlv
                o.fault_location = EntityIdTlv(bytes(x[0])) if x else None
            elif f == "responses":
                assign_list(o, "file_store_responses", [mk_fsresp(r) for r in x], False)
            elif f == "options":
                from spacepackets.cfdp.tlv import CfdpTlv
                from spacepackets.cfdp.tlv.defs import TlvType
                assign_list(o, "options", [CfdpTlv(TlvType(t["t"]), bytes(t["v"])) for t in x], True)
            elif f == "srcname":
                o.source_file_name = bytes(x).decode() if x else None
            elif f == "dstname":
                o.dest_file_name = bytes(x).decode() if x else None
            elif f == "segs":
                assign_list(o, "segment_requests", [(_i(s), _i(e)) for s, e in x], False)
            elif f == "data":
                assign_grown(o, "file_data", x)
            elif f == "meta":
                from spacepackets.cfdp.pdu.file_data import SegmentMetadata, RecordContinuationState
                o.segment_metadata = SegmentMetadata(RecordContinuationState(x[0]["state"]), bytes(x[0]["md"])) if x else None
            else:
                raise ValueError(f)
        else:
            raise ValueError(a)

    # -- observations -----------------------------------------------------------
    def observe(self, dst=None):
        k, o = self.kind, self.o
        before = copy.deepcopy(o) if k != "uslp" else None
        snap = None if self.conf is None else _snapshot(self.conf, self.params)
        # the generic space-packet view is taken BEFORE this observation's pack(): a CRC / length cached by an earlier pack
        # must not survive a setter
        # ... and on a copy (taken first) the other order: pack() first, with whatever it has cached from before the setter,
        # then the view
        alt = copy.deepcopy(o) if k in ("tc", "tm") else None
        spv = octs(o.to_space_packet().pack()) if k in ("tc", "tm") else None
        alt_raw = None if alt is None else octs(alt.pack())
        alt_spv = None if alt is None else octs(alt.to_space_packet().pack())
        raw = octs(self.pack())
        spview = True if spv is None else (spv == raw and alt_raw == raw and alt_spv == raw)
        sibling = True
        if self.sib is not None:
            sibling = (octs(self.sib.pack()), int(self.sib.packet_len)) == self.sib_obs and self.sib_obs[1] == len(self.sib_obs[0])
        again = octs(self.pack()) == raw
        eq = True if before is None else bool(o == before) and bool(before == o)
        if k in ("tc", "tm"):
            plen, cached = int(o.packet_len), int(o.sp_header.data_len)
        elif k == "uslp":
            plen, cached = int(o.len()), 0 if self.trunc else int(o.header.frame_len)
        else:
            plen, cached = int(o.packet_len), int(o.pdu_header.pdu_data_field_len)
        # constructing and packing must leave the caller's objects as they were (setters may legitimately write through)
        caller = self.created_pure and (snap is None or _snapshot(self.conf, self.params) == snap)
        fresh = True
        if dst is not None:
            v = dst["val"]
            if k == "uslp":
                v = copy.deepcopy(v)
                v["hdr"]["flen"] = dst["cached"]
            fr = Obj(k, dst["cfg"], v)
            fresh = octs(fr.pack()) == raw
        return {"octets": raw, "plen": plen, "cached": cached, "again": again, "eq": eq, "caller": caller, "fresh": fresh,
                "spview": spview, "sibling": sibling}


def assign_list(o, attr, items, none_if_empty):
    """Assign a list-valued attribute. If the object already holds a list (and the parity of the lengths says so), that SAME
    list object is changed in place to the new content and handed to the setter again - what an application does that keeps
    working on the list it once gave to / got from the PDU."""
    cur = getattr(o, attr, None)
    if isinstance(cur, list) and items and (len(cur) + len(items)) % 2 == 1:
        cur[:] = items
        setattr(o, attr, cur)
    else:
        setattr(o, attr, (items or None) if none_if_empty else items)


def compare(exp, obs):
    if "exc" in obs:
        return "exc"
    if obs["octets"] != exp["octets"]:
        return "octets"
    if obs["plen"] != exp["plen"]:
        return "len.reported"
    if obs["cached"] != exp["cached"]:
        return "len.field"
    if not obs["fresh"]:
        return "fresh"
    if not obs["again"]:
        return "pack.twice"
    if not obs["eq"]:
        return "pack.eq"
    if not obs["caller"]:
        return "caller"
    if not obs["spview"]:
        return "spacepacket.view"
    if not obs["sibling"]:
        return "sibling"
    return None


def evname(ev):
    return ev["a"] + ("." + ev["f"] if "f" in ev else "")


def run_path(kind, init, path):
    w = Obj(kind, init["cfg"], init["val"])
    for ev in path:
        w.apply(ev)
    return w


def run(ctx):
    ctx.rule = RULE
    ctx.assumptions = ["adapters build objects by constructor calls, call the documented setters and read attributes only",
                       "deepcopy of (object, caller's PduConfig, caller's parameter object) preserves their sharing",
                       "file-size-sensitive values stay below 2^32 in setter histories that switch the file flag"]
    total_edges = 0
    for kind in KINDS:
        edges, inits = {}, []

        def on_edge(e):
            edges.setdefault(canon(e["src"]), []).append(e)

        ctx.explore_graph("MC_Lifecycle", "MC_Lifecycle.cfg", f"lifecycle-{kind}", on_edge, on_meta=inits.append,
                          consts=f'CONSTANT Kind = "{kind}"', workers=1, coverage=False)
        taken = {}
        for es in edges.values():
            for e in es:
                taken[evname(e["ev"])] = taken.get(evname(e["ev"]), 0) + 1
        for a, k in taken.items():
            ctx.actions[f"MC_Lifecycle[{kind}].{a}"] = k
        if not {"pack", "reload"} <= set(taken) or len(taken) < 3:
            from ..core import MachineryError
            raise MachineryError(f"vacuity: lifecycle graph of {kind} lacks actions: {sorted(taken)}")
        seen = set()
        stack = []
        for m in inits:
            key = canon(m["init"])
            if key in seen:
                continue
            seen.add(key)
            res = outcome(lambda: Obj(kind, m["init"]["cfg"], m["init"]["val"]))
            if isinstance(res, dict):
                ctx.violation(f"{kind}.create/exc/", f"constructing {short(m['init'])} raised {res}",
                              {"kind": "lc-path", "cls": kind, "init": m["init"], "path": [], "expected": m["obs"]})
                continue
            obs = outcome(lambda: res.observe(m["init"]))
            clause = compare(m["obs"], obs)
            ctx.count(canon([kind, "create", m["init"]]))
            if clause:
                ctx.violation(f"{kind}.create/{clause}/crc={m['init']['cfg'].get('crc', '-')}",
                              f"after construction of {short(shrink(m['init']))}: specification expects "
                              f"{short(shrink(m['obs']))}, code shows {short(shrink(obs))}",
                              {"kind": "lc-path", "cls": kind, "init": m["init"], "path": [], "expected": m["obs"]})
                continue
            stack.append((key, res, m["init"], []))
        n = 0
        while stack:
            key, real, init, path = stack.pop()
            for e in edges.get(key, []):
                n += 1
                w = copy.deepcopy(real)
                ev = e["ev"]
                obs = outcome(lambda: (w.apply(ev), w.observe(e["dst"]))[1])
                clause = compare(e["obs"], obs)
                ctx.count(canon([kind, e["src"], ev]))
                if n % 701 == 1:
                    ctx.sample({"class": kind, "pre": e["src"], "call": ev, "expected": e["obs"]})
                if clause:
                    cfgbits = f"crc={e['src']['cfg'].get('crc', '-')},large={e['src']['cfg'].get('large', '-')}"
                    ctx.violation(f"{kind}.{evname(ev)}/{clause}/{cfgbits}",
                                  f"{kind}: after {len(path)} earlier calls, {short(shrink(ev))} on {short(shrink(e['src']))}: "
                                  f"specification expects {short(shrink({k: e['obs'][k] for k in ('plen', 'cached', 'octets')}))}, "
                                  f"code shows {short(shrink(obs))}",
                                  {"kind": "lc-path", "cls": kind, "init": init, "path": path + [ev], "expected": e["obs"],
                                   "dst": e["dst"]})
                    continue
                # one real object per (specification state, kind of the call that led there): a setter that leaves something
                # behind for the NEXT call is seen whatever state that is
                dk = canon(e["dst"])
                nk = dk + "|" + evname(ev)
                if nk not in seen:
                    seen.add(nk)
                    stack.append((dk, w, init, path + [ev]))
        total_edges += n
        ctx.note(f"{kind}: {n} transitions over {len(seen)} states replayed on the real class")
    ctx.traces += total_edges
    # direction B
    bad = ctx.validate_trace("Trace_Lifecycle", histories(ctx), "histories", shard=4000)
    for i, clause in sorted(bad.items()):
        hist = ctx.trace_history(i)
        e = hist[-1]
        kind = hist[0]["kind"]
        name = "create" if e["op"] == "init" else evname(e["ev"])
        cfg = hist[0]["cfg"]
        ctx.violation(f"{kind}.{name}/{clause}/crc={cfg.get('crc', '-')},large={cfg.get('large', '-')},mode=trace",
                      f"{kind}: recorded history of {len(hist)} calls ends with {short(shrink(e.get('ev', 'create')))}: observation "
                      f"{short(shrink(e['obs']))} disagrees with the specification on {clause}",
                      {"kind": "lc-history", "history": hist})
    ctx.exhaustive = True
    ctx.extra["exhaustive_note"] = ("complete lifecycle graphs of the bounded argument sets (all sequences of any length over "
                                    "them); random histories with random arguments beyond")


# ---------------------------------------------------------------------------------------
def rb(rng, n):
    return [rng.randrange(256) for _ in range(n)]


NAMES = ["", "a", "ä.txt", "dir/file.bin", "日本語"]


def rnd_init(rng, kind):
    from .cfdp_common import rnd_cfg, rnd_params
    if kind == "tc":
        return {"none": 0}, {"apid": rng.randrange(2048), "seq": rng.randrange(16384), "ack": rng.randrange(16),
                             "service": rng.randrange(256), "subservice": rng.randrange(256), "source": rng.randrange(65536),
                             "data": rb(rng, rng.choice([0, 3]))}
    if kind == "tm":
        return {"none": 0}, {"ver": 0, "apid": rng.randrange(2048), "seq": rng.randrange(16384), "service": rng.randrange(256),
                             "subservice": rng.randrange(256), "msgcnt": rng.randrange(65536), "dest": rng.randrange(65536),
                             "timeref": rng.randrange(16), "stamp": rb(rng, rng.choice([0, 7, 2])), "data": rb(rng, rng.choice([0, 3]))}
    if kind == "uslp":
        from .c17 import rnd_frame
        f, _ = rnd_frame(rng)
        f["tfdz"] = f["tfdz"][:40]
        f["hdr"]["flen"] = 0 if f["hdr"]["trunc"] else rng.choice([0, 77])
        return {"none": 0}, f
    cfg = rnd_cfg(rng)
    p = rnd_params(rng, kind, cfg["large"])
    if kind in ("nak", "keepalive"):           # values must fit both widths (file flag changes)
        small = lambda v: v[-4:] if len(v) > 4 else v
        if kind == "nak":
            p = {"start": small(p["start"]), "end": small(p["end"]), "segs": [[small(s), small(e)] for s, e in p["segs"]]}
        else:
            p = {"progress": small(p["progress"])}
    return cfg, p


def rnd_event(rng, kind):
    from .cfdp_common import rnd_resp, rnd_id
    r = rng.random()
    if r < 0.12:
        return {"a": "pack"}
    if r < 0.24:
        return {"a": "reload"}
    if kind in ("tc", "tm"):
        c = rng.random()
        if c < 0.25:
            return {"a": "set", "f": "apid", "x": rng.randrange(2048)}
        if c < 0.45 and kind == "tc":
            return {"a": "set", "f": "seq", "x": rng.randrange(16384)}
        return {"a": "set", "f": "data", "x": rb(rng, rng.choice([0, 1, 2, 17, 300]))}
    if kind == "uslp":
        return {"a": "framelen"} if rng.random() < 0.4 else {"a": "set", "f": "tfdz", "x": rb(rng, rng.choice([0, 1, 5, 60]))}
    def fault():
        if rng.random() < 0.3:
            return []
        if rng.random() < 0.3:          # one small entity number in a random width (entity-ID TLVs compare by number)
            return [[0] * (rng.choice([1, 2, 4, 8]) - 1) + [7]]
        return [rnd_id(rng, rng.choice([1, 2, 4, 8]))]
    if kind == "eof":
        return {"a": "set", "f": "fault", "x": fault()}
    if kind == "finished":
        if rng.random() < 0.5:
            return {"a": "set", "f": "fault", "x": fault()}
        return {"a": "set", "f": "responses", "x": [rnd_resp(rng) for _ in range(rng.choice([0, 1, 2, 4]))]}
    if kind == "metadata":
        c = rng.randrange(3)
        if c == 0:
            return {"a": "set", "f": "options", "x": [{"t": rng.choice([0, 1, 2, 4, 5, 6]), "v": rb(rng, rng.choice([0, 1, 9]))}
                                                      for _ in range(rng.choice([0, 1, 2, 4]))]}
        return {"a": "set", "f": "srcname" if c == 1 else "dstname", "x": list(rng.choice(NAMES).encode())}
    if kind == "nak":
        if rng.random() < 0.4:
            return {"a": "flag", "x": rng.randrange(2), **({"raw": 1} if rng.random() < 0.4 else {})}
        return {"a": "set", "f": "segs", "x": [[rb(rng, 4), rb(rng, 4)] for _ in range(rng.choice([0, 1, 2, 4]))]}
    if kind == "filedata":
        if rng.random() < 0.5:
            return {"a": "set", "f": "data", "x": rb(rng, rng.choice([0, 1, 2, 17, 300]))}
        return {"a": "set", "f": "meta", "x": [] if rng.random() < 0.4 else [{"state": rng.randrange(4), "md": rb(rng, rng.choice([0, 1, 7, 63]))}]}
    if kind == "keepalive":
        return {"a": "flag", "x": rng.randrange(2), **({"raw": 1} if rng.random() < 0.4 else {})}
    raise ValueError(kind)


def boundary_histories(ctx):
    """File Data PDUs whose payload is set to the sizes around the 16-bit data field limit"""
    rng = ctx.rng
    from .cfdp_common import rnd_cfg
    for crc in (0, 1):
        for large in (0, 1):
            for over in (0, 1):
                cfg = rnd_cfg(rng, crc=crc, large=large)
                val = {"offset": [0, 0, 1, 0], "data": [1, 2], "meta": []}
                w = Obj("filedata", cfg, val)
                yield {"op": "init", "kind": "filedata", "cfg": cfg, "val": val, "obs": outcome(lambda: w.observe())}
                n = 65535 - (8 if large else 4) - 2 * crc + over
                ev = {"a": "set", "f": "data", "x": [7] * n}
                yield {"op": "ev", "ev": ev, "obs": outcome(lambda: (w.apply(ev), w.observe())[1])}


def histories(ctx):
    rng = ctx.rng
    yield from boundary_histories(ctx)
    for _ in range(ctx.q(5000, 150000)):
        kind = rng.choice(KINDS)
        cfg, val = rnd_init(rng, kind)
        res = outcome(lambda: Obj(kind, cfg, val))
        if isinstance(res, dict):
            yield {"op": "init", "kind": kind, "cfg": cfg, "val": val, "obs": res}
            continue
        w = res
        yield {"op": "init", "kind": kind, "cfg": cfg, "val": val, "obs": outcome(lambda: w.observe())}
        for _ in range(rng.randrange(1, 13)):
            ev = rnd_event(rng, kind)
            if ev["a"] == "reload" and kind == "uslp":
                w.apply({"a": "framelen"})
                yield {"op": "ev", "ev": {"a": "framelen"}, "obs": outcome(lambda: w.observe())}
            if ev["a"] == "set" and rng.random() < 0.04:
                # the setter is used 255 (or 511) times with other values first - no pack() in between - and then with the value
                # of the event: 256 / 512 setter calls between two pack() calls; only the last one counts
                others = [x for x in (rnd_event(rng, kind) for _ in range(12)) if x["a"] == "set" and x.get("f") == ev.get("f")][:2]
                if others:
                    n = rng.choice([256, 256, 512])
                    res = outcome(lambda: [w.apply(others[i % len(others)]) for i in range(n - 1)])
                    if isinstance(res, dict) and "exc" in res:
                        break
            obs = outcome(lambda: (w.apply(ev), w.observe())[1])
            yield {"op": "ev", "ev": ev, "obs": obs}
            if "exc" in obs:
                break


def replay(r):
    if r["kind"] == "lc-path":
        w = run_path(r["cls"], r["init"], r["path"])
        obs = outcome(lambda: w.observe(r.get("dst")))
        clause = compare(r["expected"], obs)
        return clause is None, (f"class {r['cls']} init {short(shrink(r['init']), 500)}\n path {short(shrink(r['path']), 800)}\n"
                                f" expected {short(shrink(r['expected']), 700)}\n observed {short(shrink(obs), 700)}\n"
                                f" failing clause: {clause}")
    hist = r["history"]
    w = Obj(hist[0]["kind"], hist[0]["cfg"], hist[0]["val"])
    for e in hist[1:]:
        w.apply(e["ev"])
    obs = w.observe()
    rec = hist[-1]["obs"]
    same = all(obs[k] == rec[k] for k in ("octets", "plen", "cached"))
    lenok = obs["plen"] == len(obs["octets"])
    return (not same) and lenok, (f"history {short(shrink([e.get('ev', 'create') for e in hist]), 900)}\n recorded {short(shrink(rec), 600)}\n"
                                  f" observed now {short(shrink(obs), 600)}\n (reported length {obs['plen']} vs {len(obs['octets'])} octets packed)")
