"""C14 - CDS short timestamps encode exactly and agree with calendar arithmetic."""
import datetime

from ..ops import perform, record

RULE = ("A: TLC grid - day grid {0,1,4382,4383,4384,32767,54000,65534,65535} x millisecond grid x suffixes (pack, unpack, "
        "unpack_from_raw, read_from_raw, from_unix_days, Unix-seconds and datetime views against integer calendar arithmetic "
        "written in TLA+), all 256 P-field values, short inputs, out-of-range milliseconds, 16 boundary dates x 10 times of "
        "day for from_datetime, stamps x timedeltas landing before / on / after midnight and on day 65535/65536, ordering "
        "pairs. B: recorded calls validated by TLC: random (day, ms) over the full range, random UTC datetimes 1958..2137 at "
        "microsecond resolution (half of them whole milliseconds), random additions, random ordered pairs 1 ms apart, random "
        "octets. distinct = distinct (op, args).")

EPOCH = datetime.datetime(1958, 1, 1)
SPAN_US = (65536 * 86400) * 10 ** 6


def classify(e):
    a, op = e["a"], e["op"]
    if op in ("cds.rt",):
        return f"pre1970={int(a['st']['days'] < 4383)}"
    if op == "cds.from_dt":
        t = a["t"]
        return f"pre1970={int(t['y'] < 1970)},wholems={int(t['us'] % 1000 == 0)}"
    if op == "cds.add":
        tot = a["st"]["ms"] + a["td"]["secs"] * 1000 + a["td"]["us"] // 1000
        return f"carry={tot // 86400000},exact={int(tot % 86400000 == 0)},wholems={int(a['td']['us'] % 1000 == 0)}"
    if op == "cds.unpack":
        b = a["octets"]
        return f"len={min(len(b), 7)},p={b[0] if b else -1}"
    return ""


def rnd_stamp(rng):
    return {"days": rng.choice([0, 4382, 4383, 65535, rng.randrange(65536), rng.randrange(65536)]),
            "ms": rng.choice([0, 86399999, rng.randrange(86400000), rng.randrange(86400000)])}


def events(ctx):
    rng = ctx.rng
    from ..core import source_constants
    for c in source_constants():
        yield record("cds.unpack", {"octets": list(c) + [64, 0x12, 0x34, 0, 0, 0, 9]})
        yield record("cds.unpack", {"octets": (list(c) + [64, 0x12, 0x34, 0, 0, 0, 9][len(c):])[:7] + [1, 2, 3]})
    # days related to TODAY (the library's now() runs before every stamp is built): today, and today shifted by the distance
    # between the CCSDS and the Unix epoch in either direction
    import datetime as _dt
    today = (_dt.datetime.now(_dt.timezone.utc) - _dt.datetime(1958, 1, 1, tzinfo=_dt.timezone.utc)).days
    for d in (today - 1, today, today + 1, today + 4383 - 1, today + 4383, today + 4383 + 1, today - 4383, today + 2 * 4383):
        if 0 <= d <= 65535:
            for ms in (0, 1, 43200000, 86399999):
                yield record("cds.rt", {"st": {"days": d, "ms": ms}, "sfx": []})
                yield record("cds.add", {"st": {"days": d, "ms": ms}, "td": {"days": 0, "secs": 1, "us": 500}})
    for _ in range(ctx.q(15000, 1000000)):
        yield record("cds.rt", {"st": rnd_stamp(rng), "sfx": [rng.randrange(256)] * rng.choice([0, 0, 3])})
    for _ in range(ctx.q(20000, 1500000)):
        us = rng.randrange(SPAN_US)
        if rng.random() < 0.5:
            us -= us % 1000
        dt = EPOCH + datetime.timedelta(microseconds=us)
        yield record("cds.from_dt", {"t": {"y": dt.year, "mo": dt.month, "d": dt.day, "h": dt.hour, "mi": dt.minute,
                                           "s": dt.second, "us": dt.microsecond}})
    for _ in range(ctx.q(20000, 1000000)):
        st = rnd_stamp(rng)
        k = rng.randrange(4)
        if k == 0:      # land exactly on / next to midnight
            need = 86400000 - st["ms"] + rng.choice([-1, 0, 0, 1])
            need = max(0, min(need, 86399999))
            td = {"days": rng.choice([0, 1, 65535 - st["days"]]), "secs": need // 1000, "us": (need % 1000) * 1000}
        elif k == 1:    # around the day overflow
            td = {"days": max(0, 65535 - st["days"] + rng.choice([-1, 0, 1])), "secs": rng.choice([0, 86399]),
                  "us": rng.choice([0, 999000, 999999])}
        else:
            td = {"days": rng.choice([0, 0, 1, rng.randrange(70000)]), "secs": rng.randrange(86400),
                  "us": rng.choice([0, 1000 * rng.randrange(1000), rng.randrange(1000000)])}
        e = {"st": st, "td": td}
        if rng.random() < 0.3:
            e["via"] = "from_dt"
        yield record("cds.add", e)
    for _ in range(ctx.q(10000, 500000)):
        s1 = rnd_stamp(rng)
        s2 = dict(s1)
        k = rng.randrange(4)
        if k == 0 and s2["ms"] < 86399999:
            s2["ms"] += 1
        elif k == 1 and s2["days"] < 65535:
            s2["days"] += 1
            s2["ms"] = rng.randrange(86400000)
        elif k == 2:
            s2 = rnd_stamp(rng)
        if rng.random() < 0.5:
            s1, s2 = s2, s1
        yield record("cds.cmp", {"s1": s1, "s2": s2})
    for _ in range(ctx.q(10000, 500000)):
        b = [rng.choice([64, 64, 64, rng.randrange(256)])] + [rng.randrange(256) for _ in range(rng.choice([0, 3, 5, 6, 6, 6, 9]))]
        yield record("cds.unpack", {"octets": b})
    # every value of the 16-bit day field is decoded in this one process (65 536 distinct days)
    for d in range(65536):
        ms = (d * 1318699) % 86400000
        yield record("cds.unpack", {"octets": [64, d >> 8, d & 255] + list(ms.to_bytes(4, "big"))})
    # very long time spans: the day count overflows by far (up to timedelta.max) - an overflow is an overflow
    for days in (65536, 10 ** 6, 2937279, 2937280, 3000000, 99999999, 999999999):
        for st in ({"days": 0, "ms": 0}, {"days": 65535, "ms": 86399999}, {"days": 22000, "ms": 1}):
            yield record("cds.add", {"st": st, "td": {"days": days, "secs": rng.choice([0, 86399]), "us": 0}})


def other_zone_events(ctx):
    """The same operations in a process whose local time zone is not UTC (set before the library is imported): stamps, their
    Unix / UTC views and additions do not depend on where the process runs."""
    import json, os, subprocess, sys
    code = (
        "import os, sys, json, time\n"
        "os.environ['TZ'] = sys.argv[1]; time.tzset()\n"
        "from vp.core import import_repo; import_repo()\n"
        "from vp.ops import record\n"
        "evs = json.loads(sys.stdin.read())\n"
        "print(json.dumps([record(e['op'], e['a']) for e in evs]))\n")
    evs = []
    for d, ms in ((0, 0), (4383, 0), (4382, 86399999), (22645, 3600000), (30000, 43200000), (65535, 86399999)):
        evs.append({"op": "cds.rt", "a": {"st": {"days": d, "ms": ms}, "sfx": []}})
        evs.append({"op": "cds.add", "a": {"st": {"days": d, "ms": ms}, "td": {"days": 0, "secs": 3600, "us": 0}}})
        evs.append({"op": "cds.unpack", "a": {"octets": [64, d >> 8, d & 255] + list(ms.to_bytes(4, "big"))}})
    evs.append({"op": "cds.from_dt", "a": {"t": {"y": 2020, "mo": 1, "d": 1, "h": 1, "mi": 0, "s": 0, "us": 0}}})
    env = dict(os.environ)
    env["PYTHONPATH"] = os.path.dirname(os.path.dirname(os.path.dirname(os.path.abspath(__file__))))
    for tz in ("Asia/Tokyo", "America/St_Johns", "Pacific/Kiritimati"):
        r = subprocess.run([sys.executable, "-c", code, tz], input=json.dumps(evs), capture_output=True, text=True, env=env, timeout=600)
        try:
            out = json.loads(r.stdout.strip().splitlines()[-1])
        except Exception:  # noqa
            # the library could not even be used in that zone: every operation counts as failed
            out = [{"op": e["op"], "a": e["a"], "o": {"exc": "UNDOC:process-in-zone-" + tz}} for e in evs]
        for e in out:
            e["a"] = dict(e["a"], zone=tz)
            yield e


def run(ctx):
    ctx.rule = RULE
    ctx.assumptions = ["adapters vp/ops_time.py: attribute reads; Unix seconds (a float) converted exactly and accepted within "
                       "1 microsecond of the exact value; datetimes compared at integer microseconds with the same tolerance",
                       "TLC evaluates Cds.tla (proleptic Gregorian civil-from-days / days-from-civil in integer arithmetic)",
                       "P-field 0x40 must be accepted; time code ID other than 100b or a 24-bit day segment must be refused; "
                       "other P-field bits are not judged", "non-whole-millisecond datetimes / timedeltas may floor or round up",
                       "only non-negative timedeltas"]
    ctx.symbolic_laws(['Law_CdsEnc', 'Law_CdsAdd'] + (['Law_CdsCalendar'] if ctx.thorough else []))
    ctx.replay_vectors("MC_Codec", "MC_Codec.cfg", perform, "grid", classify, consts='CONSTANT Area = "cds"',
                       need_actions=("PickVector",))
    ctx.validate_events(other_zone_events(ctx), "other-zones", classify)
    ctx.validate_events(events(ctx), "calls", classify, shard=4000)
    from .. import repotests
    repotests.codec_stage(ctx, "C14")       # the calls the repository's own tests make, judged by the specification
    ctx.exhaustive = False
