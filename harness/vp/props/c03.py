"""C03 - PUS-C telemetry encode/decode exact and inverse for any timestamp length."""
from ..ops import perform, record
from .c02 import crc16

RULE = ("A: TLC grid (parameter cross products x 6 timestamp lengths 0,1,2,7,8,16, all time-reference nibbles x packet "
        "versions, service-17 wrapper, all strict prefixes, substitutions, short-declared family incl. lengths too small "
        "for the timestamp handed to the decoder) executed on the code; B: recorded round trips with timestamp lengths "
        "0..40 and source data up to the size limit plus raw strings, validated by TLC. distinct = distinct (op, args).")


def classify(e):
    a = e["a"]
    if e["op"] == "tm.rt":
        return f"via={a.get('via')},ts={len(a['p']['stamp'])},data={'0' if not a['p']['data'] else 'n'},sfx={int(bool(a['sfx']))}"
    if e["op"] == "tm.unpack":
        b = a["octets"]
        if len(b) >= 6:
            n = b[4] * 256 + b[5] + 7
            need = 15 + a["tslen"]
            return f"declared{'<min' if n < need else '>=min'},{'short' if len(b) < n else 'complete'}"
        return "len<6"
    return ""


def rand_params(rng, ts=None, n=None):
    ts = rng.choice([0, 1, 2, 7, 8, 16, 32]) if ts is None else ts
    n = rng.choice([0, 1, 2, 7, 32, 100]) if n is None else n
    return {"ver": rng.randrange(8), "apid": rng.choice([0, 2047, rng.randrange(2048)]),
            "seq": rng.choice([0, 16383, rng.randrange(16384)]), "service": rng.randrange(256),
            "subservice": rng.randrange(256), "msgcnt": rng.choice([0, 65535, rng.randrange(65536)]),
            "dest": rng.choice([0, 65535, rng.randrange(65536)]), "timeref": rng.randrange(16),
            "stamp": [rng.randrange(256) for _ in range(ts)], "data": [rng.randrange(256) for _ in range(n)]}


GUARD = {"unverified": 0}


def crc_zero_prefix_tms(rng, want=4):
    """TM parameters for which the running CRC is exactly 0x0000 after the primary header, or after primary + secondary header
    (time stamp included): a running checksum of zero must not be mistaken for 'not started'."""
    from .c02 import crc16
    from ..ops_ecss import mk_tm
    from ..core import MachineryError
    out = []

    def params(apid, seq, dest, stamp, n):
        return {"ver": 0, "apid": apid, "seq": seq, "service": 17, "subservice": 2, "msgcnt": 5, "dest": dest, "timeref": 0,
                "stamp": stamp, "data": [rng.randrange(256) for _ in range(n)]}
    for ts, n in ((0, 0), (7, 2)):
        done = False
        for apid in rng.sample(range(2048), 2048):
            for seq in range(16384):
                if crc16([0x08 | (apid >> 8), apid & 0xFF, 0xC0 | (seq >> 8), seq & 0xFF, 0, 8 + ts + n]) == 0:
                    out.append(params(apid, seq, rng.randrange(65536), [rng.randrange(256) for _ in range(ts)], n))
                    done = True
                    break
            if done:
                break
    for _ in range(want):
        apid, seq, ts, n = rng.randrange(2048), rng.randrange(16384), rng.choice([0, 7]), rng.choice([0, 3])
        stamp = [rng.randrange(256) for _ in range(ts)]
        pre = [0x08 | (apid >> 8), apid & 0xFF, 0xC0 | (seq >> 8), seq & 0xFF, 0, 8 + ts + n, 0x20, 17, 2, 0, 5]
        for dest in range(65536):
            if crc16(pre + [dest >> 8, dest & 0xFF] + stamp) == 0:
                out.append(params(apid, seq, dest, stamp, n))
                break
    for q in out:
        raw = bytes(mk_tm(q, "tm").pack())
        if crc16(list(raw[:6])) != 0 and crc16(list(raw[:13 + len(q["stamp"])])) != 0:
            GUARD["unverified"] += 1      # (the library under test packs something else: the comparison will say so)
    return out


def events(ctx):
    rng = ctx.rng
    from ..core import source_constants
    from ..ops_ecss import mk_tm as _mk
    for c in source_constants():
        raw = list(bytes(_mk({"ver": 0, "apid": 0x2CF, "seq": 0x3C1D, "service": 17, "subservice": 2, "msgcnt": 5, "dest": 7, "timeref": 0,
                              "stamp": [64, 1, 2, 3, 4, 5, 6], "data": [1, 2, 3]}, "tm").pack()))
        yield record("tm.unpack", {"octets": list(c) + raw, "tslen": 7, "via": "tm"})
        yield record("tm.unpack", {"octets": list(c) + raw[len(c):], "tslen": 7, "via": "tm"})
    for p in crc_zero_prefix_tms(rng):
        for via in ("tm", "setter", "bytearray"):
            yield record("tm.rt", {"p": p, "sfx": [], "via": via})
    for ts in range(0, 41):
        for n in (0, 1, 5):
            yield record("tm.rt", {"p": rand_params(rng, ts, n), "sfx": [], "via": "tm"})
            p = rand_params(rng, ts, n)
            p["service"], p["msgcnt"] = 17, 0
            yield record("tm.rt", {"p": p, "sfx": [1, 2, 3], "via": "srv17"})
    for n in ctx.q([255, 256, 4095, 65527 - 7, 65527 - 7 + 1], [255, 256, 4095, 65519, 65527 - 7, 65527 - 7 + 1]):
        yield record("tm.rt", {"p": rand_params(rng, 7, n), "sfx": [], "via": "tm"})
    for f, vals in (("apid", range(0, 2048, 7)), ("seq", range(0, 16384, 61)), ("service", range(256)),
                    ("subservice", range(256)), ("msgcnt", [1 << i for i in range(16)] + [65535, 0xAA55]),
                    ("dest", [1 << i for i in range(16)] + [65535, 0xAA55]), ("timeref", range(16)), ("ver", range(8))):
        for v in vals:
            p = rand_params(rng, 7, 3)
            p[f] = v
            yield record("tm.rt", {"p": p, "sfx": [], "via": "tm"})
    for _ in range(ctx.q(20000, 1000000)):
        sfx = [] if rng.random() < 0.6 else [rng.randrange(256) for _ in range(rng.randrange(1, 20))]
        p = rand_params(rng)
        via = rng.choice(["setter", "decoded-setter", "bytearray"]) if rng.random() < 0.4 else "tm"
        if rng.random() < 0.2:
            via, p["service"], p["msgcnt"] = "srv17", 17, 0
        yield record("tm.rt", {"p": p, "sfx": sfx, "via": via})
    for _ in range(ctx.q(20000, 600000)):
        kind = rng.randrange(4)
        tslen = rng.choice([0, 0, 1, 2, 7, 7, 8])
        if kind == 0:
            b = [rng.randrange(256) for _ in range(rng.choice([0, 3, 6, 11, 12, 13, 14, 20, 24]))]
        else:
            n = rng.choice([7, 8, 9, 12, 13, 14, 15, 16, 17, 21, 22, 23, 24])
            body = [0x08 | rng.randrange(8), rng.randrange(256), 0xC0 | rng.randrange(64), rng.randrange(256),
                    (n - 7) >> 8, (n - 7) & 0xFF] + [rng.choice([0x20, 0x2F, 0x10]), 17, 2, 0, 1, 0, 2] + \
                   [rng.randrange(256) for _ in range(12)]
            body = body[:n - 2] if n >= 8 else body[:6]
            if n >= 8:
                c = crc16(body)
                body = body + [c >> 8, c & 0xFF]
            b = body + [0x20, 17, 2, 0, 0, 9, 9, 9, 9, 1, 2, 3, 4][: rng.randrange(14)]
            if kind == 3 and b:
                b[rng.randrange(len(b))] = rng.randrange(256)
        yield record("tm.unpack", {"octets": b, "tslen": tslen, "via": rng.choice(["tm", "tm", "srv17"])})
        if rng.random() < 0.2:
            yield record("tm.svc_raw", {"octets": b})
            yield record("pus.crc", {"octets": b})


def run(ctx):
    ctx.rule = RULE
    ctx.assumptions = ["adapters vp/ops_ecss.py project objects by attribute reads only",
                       "TLC evaluates Pus.tla (ECSS-E-ST-70-41C 7.4.3 layout, CRC-16 table computed in TLA+)",
                       "beyond the grids parameters are sampled (no proof for all inputs)"]
    ctx.symbolic_laws(['Law_PusSec'])
    ctx.replay_vectors("MC_Codec", "MC_Codec.cfg", perform, "grid", classify, consts='CONSTANT Area = "tm"',
                       need_actions=("PickVector",))
    ctx.validate_events(events(ctx), "calls", classify, shard=2000)
    from .. import repotests
    repotests.codec_stage(ctx, "C03")       # the calls the repository's own tests make, judged by the specification
    ctx.exhaustive = False
