"""C17 - USLP headers and transfer frames encode exactly per 732.1-B-2 and round-trip."""
from ..ops import perform, record
from ..ops_uslp import matching

RULE = ("A: TLC grid - truncated headers: 8 SCIDs x 2 x 5 VCIDs x 3 MAP IDs; primary headers: IDs x frame lengths x all 8 flag "
        "combinations x VCF count lengths 0..7 (distinct octets, all-ones, high-bit patterns); out-of-range and negative IDs "
        "for both header kinds; header decodes at every prefix length, all 16 version nibbles, wrong header type; frames: fixed "
        "(rules 0-2, pointer values 0/258/65535) and variable (rules 3-7, normal and truncated header) x protocol IDs x data "
        "zones x insert zone x OCF x FECF 0/2/4 octets: round-trip, length and frame-length-field, every strict prefix "
        "refused, trailing octets ignored; 13 managed-parameter variants per sample frame; the 8 rules x 2 frame types matrix. "
        "B: recorded calls validated by TLC - random headers over the full ID / 56-bit VCF range, random frames with data "
        "zones up to 2 000 octets (thorough: up to the 65 536-octet frame limit), frames of exactly 65 535 / 65 536 octets per "
        "frame type with and without FECF in every tier, decoded with matching and with randomly "
        "perturbed managed parameters. distinct = distinct (op, args).")


def classify(e):
    a, op = e["a"], e["op"]
    if op == "uslp.hdr.rt":
        h = a["h"]
        bad = not (0 <= h["scid"] <= 65535 and 0 <= h["vcid"] <= 63 and 0 <= h["map"] <= 15)
        neg = min(h["scid"], h["vcid"], h["map"]) < 0
        return f"trunc={h['trunc']},vcflen={h['vcflen']},badid={int(bad)},neg={int(neg)}"
    if op == "uslp.frame.rt":
        f = a["f"]
        return (f"{a['ftype']},trunc={f['hdr']['trunc']},iz={int(bool(f['iz']))},ocf={int(bool(f['ocf']))},"
                f"fecf={int(bool(f['fecf']))},tfdz0={int(not f['tfdz'])}")
    if op == "uslp.frame.unpack":
        return f"{a['mp']['ftype']},iz={int(bool(a['mp']['iz']))},fecf={int(bool(a['mp']['fecf']))}"
    if op == "uslp.hdr.unpack":
        return f"trunc={a['trunc']},len={min(len(a['octets']), 15)}"
    return ""


def rnd_hdr(rng, trunc=None, bad=False):
    trunc = rng.randrange(2) if trunc is None else trunc
    h = {"scid": rng.choice([0, 65535, rng.randrange(65536)]), "srcdst": rng.randrange(2), "vcid": rng.randrange(64),
         "map": rng.randrange(16), "trunc": trunc, "flen": 0, "bypass": 0, "pcc": 0, "ocf": 0, "vcflen": 0, "vcf": []}
    if not trunc:
        n = rng.randrange(8)
        h.update({"flen": rng.choice([0, 65535, rng.randrange(65536)]), "bypass": rng.randrange(2), "pcc": rng.randrange(2),
                  "ocf": rng.randrange(2), "vcflen": n,
                  "vcf": rng.choice([[255] * n, [0] * n, [rng.randrange(256) for _ in range(n)]])})
    if bad:
        k = rng.choice(["scid", "vcid", "map"])
        lim = {"scid": 65536, "vcid": 64, "map": 16}[k]
        h[k] = rng.choice([-1, lim, lim + 1, -lim, lim * 2, -rng.randrange(1, 70000)])
    return h


def rnd_frame(rng, big=False):
    ftype = rng.choice(["fixed", "var"])
    trunc = 0 if ftype == "fixed" else rng.randrange(2)
    n = rng.choice([0, 1, 2, 3, 17, 255, 256, rng.randrange(2000)])
    if big and rng.random() < 0.05:
        n = rng.choice([65000, 65500, 65514])
    f = {"hdr": rnd_hdr(rng, trunc), "iz": [] if rng.random() < 0.5 else [[rng.randrange(256) for _ in range(rng.choice([1, 2, 8]))]],
         "rule": rng.randrange(3) if ftype == "fixed" else rng.randrange(3, 8), "upid": rng.choice([0, 1, 2, 3, 4, 5, 6, 7, 8, 31]),
         "ptr": [rng.choice([0, 65535, rng.randrange(65536)])] if ftype == "fixed" else [],
         "tfdz": [rng.randrange(256) for _ in range(n)],
         "ocf": [] if trunc or rng.random() < 0.5 else [[rng.randrange(256) for _ in range(4)]],
         "fecf": [] if rng.random() < 0.5 else [[rng.randrange(256) for _ in range(rng.choice([2, 4]))]]}
    f["hdr"]["flen"] = 0
    f["hdr"]["ocf"] = 0
    return f, ftype


def events(ctx):
    rng = ctx.rng
    from ..core import source_constants
    for c in source_constants():
        for trunc in (0, 1):
            yield record("uslp.hdr.unpack", {"octets": list(c) + [0xC1, 0x23, 0x45, 0x66, 0, 20, 0x03, 1, 2, 3], "trunc": trunc})
            yield record("uslp.hdr.unpack", {"octets": list(c) + [0xC1, 0x23, 0x45, 0x66, 0, 20, 0x03, 1, 2, 3][len(c):] + [7] * 4, "trunc": trunc})
    for _ in range(ctx.q(20000, 1000000)):
        yield record("uslp.hdr.rt", {"h": rnd_hdr(rng, bad=rng.random() < 0.1), "sfx": [rng.randrange(256)] * rng.choice([0, 0, 5])})
    from ..ops_uslp import mk_frame, _ftype
    # frames of exactly 65 536 octets (frame length field 0xFFFF) and one octet less, per frame type, with / without FECF
    for ftype, rule in (("fixed", 0), ("var", 3), ("var", 7)):
        for fecf in ([], [[0xAB, 0xCD]]):
            for total in (65535, 65536):
                f = {"hdr": rnd_hdr(rng, 0), "iz": [], "rule": rule, "upid": 5, "ptr": [0] if ftype == "fixed" else [],
                     "tfdz": [], "ocf": [], "fecf": fecf}
                f["hdr"]["flen"] = 0
                f["hdr"]["ocf"] = 0
                base = 7 + f["hdr"]["vcflen"] + (3 if ftype == "fixed" else 1) + (2 if fecf else 0)
                f["tfdz"] = [(i * 7 + total) & 255 for i in range(total - base)]
                yield record("uslp.frame.rt", {"f": f, "ftype": ftype})
    for _ in range(ctx.q(12000, 400000)):
        f, ftype = rnd_frame(rng, ctx.thorough)
        yield record("uslp.frame.rt", {"f": f, "ftype": ftype})
        if rng.random() < 0.6:
            fr = mk_frame(f)
            fr.set_frame_len_in_header()
            raw = list(fr.pack(truncated=bool(f["hdr"]["trunc"]), frame_type=_ftype(ftype)))
            mp = matching(f, ftype, len(raw))
            k = rng.randrange(7)
            if k == 0:
                mp["ftype"] = "var" if ftype == "fixed" else "fixed"
                mp["fixedlen"] = len(raw)
            elif k == 1:
                mp["fixedlen"] += rng.choice([-1, 1])
                mp["trunclen"] += rng.choice([-1, 1]) if mp["trunclen"] else 0
            elif k == 2:
                mp["iz"] = rng.choice([[], [1], [3], [len(raw)]])
            elif k == 3:
                mp["fecf"] = rng.choice([[], [1], [2], [4], [len(raw)]])
            elif k == 4:
                raw = raw + [rng.randrange(256) for _ in range(rng.randrange(1, 9))]
            elif k == 5 and len(raw) > 12:
                # the receive buffer ends 1..9 octets too early (matching parameters): nothing but a refusal
                raw = raw[:len(raw) - rng.randrange(1, 10)]
            yield record("uslp.frame.unpack", {"octets": raw, "mp": mp})


def run(ctx):
    ctx.rule = RULE
    ctx.assumptions = ["adapters vp/ops_uslp.py: constructor calls and attribute reads only",
                       "TLC evaluates Uslp.tla (732.1-B-2 4.1 layout); fixed frames use rules 000-010 with the 16-bit pointer, "
                       "variable frames rules 011-111 without; truncated frames only as variable frames",
                       "VCF count compared only when its length is non-zero; out-of-range VCF counts / frame lengths are not judged",
                       "a pointer-bearing TFDF whose declared length cannot hold the pointer is unjudged"]
    ctx.symbolic_laws(['Law_Uslp'])
    ctx.replay_vectors("MC_Codec", "MC_Codec.cfg", perform, "grid", classify, consts='CONSTANT Area = "uslp"',
                       need_actions=("PickVector",))
    ctx.validate_events(events(ctx), "calls", classify, shard=2000)
    from .. import repotests
    repotests.codec_stage(ctx, "C17")       # the calls the repository's own tests make, judged by the specification
    ctx.exhaustive = False
