"""C07 - CFDP File Data PDU carries offset, segment metadata and file data exactly."""
from ..ops import perform, record
from .cfdp_common import classify, rnd_cfg, rnd_params, rnd_bytes

RULE = ("A: TLC grid - File Data PDUs for all 128 header configurations x 2 parameter sets, and offsets {0, 256, 2^32-1, 2^32, "
        "2^64-1, 2^64} x data {empty, 1, 5, 300 octets, TLV-looking} x segment metadata {none, 0, 1, 63, 64 (refused) octets} "
        "x 9 configurations, with round-trip / exact-length / suffix / prefix laws as TLC invariants, every vector executed on "
        "the code; max-segment-length helper against the formula. B: recorded round trips with random offsets over the full "
        "32/64-bit range, data up to 4096 octets (thorough: up to the 65535 limit), segmentation control, validated by TLC.")


def events(ctx):
    rng = ctx.rng
    for _ in range(ctx.q(15000, 600000)):
        cfg = rnd_cfg(rng)
        cfg["segctrl"] = rng.randrange(2)
        over = rng.random() < 0.05
        yield record("pdu.rt", {"kind": "filedata", "cfg": cfg, "p": rnd_params(rng, "filedata", cfg["large"], over), **({"via": "setter"} if (not over and rng.random() < 0.2) else {}),
                                "sfx": [] if rng.random() < 0.7 else rnd_bytes(rng, rng.randrange(1, 6))})
    # data field length at the 16-bit limit: 65 535 must pack, 65 536 must be refused (never a wrapped length field)
    for n in ctx.q([4096, 65535 - 4, 65535 - 3], [4096, 30000, 65535 - 8 - 2 - 64, 65535 - 5, 65535 - 4, 65535 - 3, 65535 - 2]):
        for crc in (0, 1):
            cfg = rnd_cfg(rng, crc=crc, large=0)
            yield record("pdu.rt", {"kind": "filedata", "cfg": cfg,
                                    "p": {"offset": [1, 2, 3, 4], "data": rnd_bytes(rng, n), "meta": []}, "sfx": []})
    for _ in range(ctx.q(1500, 30000)):
        cfg = rnd_cfg(rng)
        meta = [] if rng.random() < 0.5 else [{"state": rng.randrange(4), "md": rnd_bytes(rng, rng.randrange(0, 64))}]
        yield record("fd.maxseg", {"cfg": cfg, "maxlen": rng.choice([0, 10, 20, 30, 40, 64, 100, 1024, 4096, 65535,
                                                                      rng.randrange(0, 80)]), "meta": meta})


def run(ctx):
    ctx.rule = RULE
    ctx.assumptions = ["adapters vp/ops_cfdp.py build/project PDUs by constructor calls and attribute reads only"]
    ctx.symbolic_laws(['Law_PduOctets', 'Law_BigEndian32'])
    ctx.replay_vectors("MC_Codec", "MC_Codec.cfg", perform, "grid", classify, consts='CONSTANT Area = "fd"',
                       need_actions=("PickVector",))
    ctx.validate_events(events(ctx), "calls", classify, shard=1500)
    from .. import repotests
    repotests.codec_stage(ctx, "C07")       # the calls the repository's own tests make, judged by the specification
    ctx.exhaustive = False
