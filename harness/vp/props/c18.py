"""C18 - reserved CFDP messages (proxy, directory, originating ID) round-trip via TLVs."""
from ..ops import perform, record

RULE = ("A: TLC grid - proxy put request (entity-ID widths 1/2/4/8 and invalid widths x name grid incl. non-ASCII, value field "
        "exactly full / one octet too long), put response (13 condition codes x delivery x file status), cancel, closure, "
        "transmission mode, originating transaction ID (all 16 width pairs, all-ones / high-bit patterns, invalid widths), "
        "listing request / response / options; 19 non-reserved and borderline message values incl. non-UTF-8 octets for the "
        "reserved-message test. B: recorded calls validated by TLC - random parameters over the full ID ranges and names up to "
        "the 255-octet value limit via unpack / from_tlv / TlvHolder, random message octets (with near-'cfdp' prefixes) for the "
        "reserved-message test. distinct = distinct (op, args).")
IDW = [1, 2, 4, 8]


def classify(e):
    a = e["a"]
    if e["op"] == "msg.rt":
        return f"{a['kind']},via={a.get('via', 'unpack')}"
    v = a["v"]
    return f"len>=5={int(len(v) >= 5)},cfdp={int(v[:4] == [99, 102, 100, 112])},ascii={int(all(x < 128 for x in v[:4]))}"


def rb(rng, n):
    return [rng.randrange(256) for _ in range(n)]


def rid(rng):
    w = rng.choice(IDW)
    return rng.choice([[0] * w, [255] * w, rb(rng, w)])


def rname(rng, cap=110):
    n = rng.choice([0, 1, 5, 30, cap, rng.randrange(cap + 1)])
    if n >= 6 and rng.random() < 0.25:
        # the four marker octets "cfdp" inside a name (a directory or a suffix called cfdp)
        at = rng.randrange(0, n - 3)
        b = rb(rng, n)
        b[at:at + 4] = list(b"cfdp")
        return b
    return rb(rng, n)


def rnd_msg(rng):
    k = rng.choice(["put_request", "put_request", "put_response", "put_cancel", "closure", "txmode", "origid", "origid",
                    "listreq", "listresp", "listopts"])
    if k == "put_request":
        d = rid(rng)
        s = rname(rng)
        t = rname(rng, 255 - 5 - 3 - len(d) - len(s) + rng.choice([0, 0, 0, 1]))
        return k, {"dest": d, "src": s, "dst": t}
    if k == "put_response":
        return k, {"cond": rng.choice([0, 1, 2, 3, 4, 5, 6, 7, 8, 10, 11, 14, 15]), "delivery": rng.randrange(2),
                   "status": rng.randrange(4)}
    if k == "put_cancel":
        return k, {"none": 0}
    if k == "closure":
        return k, {"closure": rng.randrange(2)}
    if k == "txmode":
        return k, {"mode": rng.randrange(2)}
    if k == "origid":
        return k, {"src": rid(rng), "seq": rid(rng)}
    if k == "listopts":
        return k, {"recursive": rng.randrange(2), "all": rng.randrange(2)}
    s = rname(rng)
    t = rname(rng, 255 - 5 - 2 - (k == "listresp") - len(s) + rng.choice([0, 0, 0, 1]))
    p = {"path": s, "name": t}
    if k == "listresp":
        p["ok"] = rng.randrange(2)
    return k, p


def events(ctx):
    rng = ctx.rng
    for _ in range(ctx.q(30000, 1000000)):
        k, p = rnd_msg(rng)
        yield record("msg.rt", {"kind": k, "p": p, "via": rng.choice(["unpack", "from_tlv", "holder"])})
    tag = [99, 102, 100, 112]
    for _ in range(ctx.q(30000, 1000000)):
        c = rng.randrange(6)
        if c == 0:
            v = rb(rng, rng.randrange(0, 12))
        elif c == 1:
            v = tag[:rng.randrange(5)] + rb(rng, rng.randrange(0, 4))
        elif c == 2:
            v = list(tag)
            v[rng.randrange(4)] = rng.choice([rng.randrange(256), 0xFF, 0xC3, 0x80])
            v += rb(rng, rng.randrange(0, 6))
        elif c == 3:
            v = tag + rb(rng, rng.randrange(1, 40))
        elif c == 4:
            v = rb(rng, rng.choice([254, 255]))
        else:
            v = [rng.choice([0xC3, 0xE2, 0xF0, 0xFF, 0x80])] + rb(rng, rng.randrange(4, 9))
        yield record("msg.isres", {"v": v})


def run(ctx):
    ctx.rule = RULE
    ctx.assumptions = ["adapters vp/ops_msg.py: constructor calls, getters and attribute reads only; widths are compared through octet lengths",
                       "TLC evaluates CfdpMsg.tla (727.0-B-5 6.1-6.3 layouts; listing options is the library's extension, type 0x15)",
                       "getters on malformed reserved content and message type 0xFF are not judged"]
    ctx.replay_vectors("MC_Codec", "MC_Codec.cfg", perform, "grid", classify, consts='CONSTANT Area = "msg"',
                       need_actions=("PickVector",))
    ctx.validate_events(events(ctx), "calls", classify, shard=3000)
    ctx.exhaustive = False
