"""C02 - PUS-C telecommand encode/decode exact and mutually inverse."""
from ..ops import perform, record

RULE = ("A: TLC grid of constructor parameter cross products x suffixes x construction routes, all strict prefixes "
        "of sample packets, single-octet substitutions, and the adversarial short-declared-length family (first N<13 "
        "octets carry a valid CRC, following octets look like a secondary header) executed on the code; B: recorded "
        "round trips over boundary catalogues and random parameters with application data up to the 65 529-octet "
        "limit, random raw strings, validated by TLC incl. CRC-16 recomputed in TLA+. distinct = distinct (op, args).")

SIZES_Q = [0, 1, 2, 3, 255, 256, 4095]
SIZES_T = SIZES_Q + [65527, 65528, 65529, 65530]


def classify(e):
    a = e["a"]
    if e["op"] == "tc.rt":
        n = len(a["p"]["data"])
        return f"via={a.get('via')},data={'0' if n == 0 else 'n'},sfx={int(bool(a['sfx']))}"
    if e["op"] == "tc.unpack":
        b = a["octets"]
        if len(b) >= 6:
            n = b[4] * 256 + b[5] + 7
            return f"declared{'<13' if n < 13 else '>=13'},{'short' if len(b) < n else 'complete'}"
        return "len<6"
    return ""


def rand_params(rng, n=None):
    n = rng.choice([0, 1, 2, 7, 32, 100]) if n is None else n
    return {"apid": rng.choice([0, 2047, rng.randrange(2048)]), "seq": rng.choice([0, 16383, rng.randrange(16384)]),
            "ack": rng.randrange(16), "service": rng.randrange(256), "subservice": rng.randrange(256),
            "source": rng.choice([0, 65535, rng.randrange(65536)]),
            "data": [rng.randrange(256) for _ in range(n)]}


def crc16(b):
    crc = 0xFFFF
    for x in b:
        crc ^= x << 8
        for _ in range(8):
            crc = ((crc << 1) ^ 0x1021) & 0xFFFF if crc & 0x8000 else (crc << 1) & 0xFFFF
    return crc


GUARD = {"unverified": 0}


def crc_zero_prefix_tcs(rng, want=6):
    """Telecommand parameters for which the CRC of the 6-octet primary header, or of primary + secondary header, is exactly
    0x0000 (a running checksum of zero must not be mistaken for 'not started'). Found by search with an independent CRC."""
    out = []
    for n in (0, 3, 1):
        found = 0
        for apid in rng.sample(range(2048), 2048):
            for seq in range(16384):
                hdr = [0x18 | (apid >> 8), apid & 0xFF, 0xC0 | (seq >> 8), seq & 0xFF, 0, 6 + n]      # length field: 5 + n + 2 - 1
                if crc16(hdr) == 0:
                    out.append({"apid": apid, "seq": seq, "ack": 15, "service": 17, "subservice": 1, "source": 0,
                                "data": [rng.randrange(256) for _ in range(n)]})
                    found += 1
                    break
            if found >= 1:
                break
    # primary + secondary header: the 16-bit source ID can always be chosen to zero the running CRC
    for _ in range(want - len(out)):
        apid, seq, n = rng.randrange(2048), rng.randrange(16384), rng.choice([0, 2, 7])
        pre = [0x18 | (apid >> 8), apid & 0xFF, 0xC0 | (seq >> 8), seq & 0xFF, 0, 6 + n, 0x2F, 17, 1]
        for src in range(65536):
            if crc16(pre + [src >> 8, src & 0xFF]) == 0:
                out.append({"apid": apid, "seq": seq, "ack": 15, "service": 17, "subservice": 1, "source": src,
                            "data": [rng.randrange(256) for _ in range(n)]})
                break
    # guard: the prefixes searched above are the prefixes the packets really have
    from ..ops_ecss import mk_tc
    from ..core import MachineryError
    for q in out:
        raw = bytes(mk_tc(q, "ctor").pack())
        if crc16(list(raw[:6])) != 0 and crc16(list(raw[:11])) != 0:
            GUARD["unverified"] += 1      # (the library under test packs something else: the comparison will say so)
    return out


def short_flagless_tcs(rng, want=400):
    """Octet strings that declare 8..12 octets in all (too few for a PUS telecommand), have the secondary-header flag CLEAR,
    a first data octet that looks like a PUS-C secondary header, a valid CRC over exactly the declared octets, and more
    octets behind: nothing of this kind is a telecommand."""
    out = []
    for _ in range(want):
        n = rng.randrange(8, 13)
        apid = rng.randrange(2048)
        b = [0x10 | (apid >> 8), apid & 0xFF, 0xC0 | rng.randrange(64), rng.randrange(256), 0, n - 7]
        b += [0x20 | rng.randrange(16)] + [rng.randrange(256) for _ in range(n - 6 - 1 - 2)]
        x = crc16(b)
        b += [x >> 8, x & 0xFF]
        out.append(b + [rng.randrange(256) for _ in range(rng.choice([0, 3, 8, 20]))])
    return out


def events(ctx):
    rng = ctx.rng
    for b in short_flagless_tcs(rng):
        yield record("tc.unpack", {"octets": b})
    from ..core import source_constants
    from ..ops_ecss import mk_tc as _mk
    for c in source_constants():
        raw = list(bytes(_mk({"apid": 0x2CF, "seq": 0x3C1D, "ack": 15, "service": 17, "subservice": 1, "source": 7, "data": [1, 2, 3]}).pack()))
        yield record("tc.unpack", {"octets": list(c) + raw})
        yield record("tc.unpack", {"octets": list(c) + raw[len(c):]})
    for p in crc_zero_prefix_tcs(rng):
        for via in ("ctor", "setter", "bytearray"):
            yield record("tc.rt", {"p": p, "sfx": [], "via": via})
    # the exact limit of the data field (65 529 octets of application data) and one octet more, in every tier
    for n in (65529, 65530):
        yield record("tc.rt", {"p": rand_params(rng, n), "sfx": [], "via": "ctor"})
    for n in ctx.q(SIZES_Q, SIZES_T):
        for via in ("ctor", "sph", "composite"):
            yield record("tc.rt", {"p": rand_params(rng, n), "sfx": [], "via": via})
        yield record("tc.rt", {"p": rand_params(rng, n), "sfx": [rng.randrange(256) for _ in range(9)], "via": "ctor"})
    for f, vals in (("apid", range(0, 2048, 7)), ("seq", range(0, 16384, 61)), ("service", range(256)),
                    ("subservice", range(256)), ("source", [1 << i for i in range(16)] + [65535, 0xAA55]),
                    ("ack", range(16))):
        for v in vals:
            p = rand_params(rng, 3)
            p[f] = v
            yield record("tc.rt", {"p": p, "sfx": [], "via": "ctor"})
    for _ in range(ctx.q(20000, 1000000)):
        sfx = [] if rng.random() < 0.6 else [rng.randrange(256) for _ in range(rng.randrange(1, 20))]
        yield record("tc.rt", {"p": rand_params(rng), "sfx": sfx, "via": rng.choice(["ctor", "ctor", "sph", "composite", "setter", "bytearray", "empty"])})
    # raw strings: random, valid packets with mutated octets, random declared lengths with matching CRC
    for _ in range(ctx.q(20000, 600000)):
        kind = rng.randrange(4)
        if kind == 0:
            b = [rng.randrange(256) for _ in range(rng.choice([0, 3, 6, 11, 12, 13, 14, 20]))]
        else:
            n = rng.choice([7, 8, 9, 10, 11, 12, 13, 14, 15, 20])       # declared total length
            body = [0x18 | rng.randrange(8), rng.randrange(256), 0xC0 | rng.randrange(64), rng.randrange(256),
                    (n - 7) >> 8, (n - 7) & 0xFF] + [rng.choice([0x20, 0x2F, 0x10]) | 0, 17, 1, 0, 0, 1, 2, 3, 4, 5, 6,
                                                     7, 8, 9]
            body = body[:n - 2] if n >= 8 else body[:6]
            if n >= 8:
                c = crc16(body)
                body = body + [c >> 8, c & 0xFF]
            b = body + [0x2F, 17, 1, 0, 0, 9, 9, 9, 9][: rng.randrange(10)]
            if kind == 3 and b:
                b[rng.randrange(len(b))] = rng.randrange(256)
        yield record("tc.unpack", {"octets": b})
        if rng.random() < 0.2:
            yield record("pus.crc", {"octets": b})
            yield record("tcsh.unpack", {"octets": b[6:]})


def run(ctx):
    ctx.rule = RULE
    ctx.assumptions = ["adapters vp/ops_ecss.py project objects by attribute reads only",
                       "TLC evaluates Pus.tla (ECSS-E-ST-70-41C 7.4.4 layout, CRC-16 table computed in TLA+)",
                       "beyond the grids parameters are sampled (no proof for all inputs)"]
    ctx.symbolic_laws(['Law_PusSec', 'Law_SpacePacket'])
    ctx.replay_vectors("MC_Codec", "MC_Codec.cfg", perform, "grid", classify, consts='CONSTANT Area = "tc"',
                       need_actions=("PickVector",))
    ctx.validate_events(events(ctx), "calls", classify, shard=2000)
    from .. import repotests
    repotests.codec_stage(ctx, "C02")       # the calls the repository's own tests make, judged by the specification
    ctx.exhaustive = False
