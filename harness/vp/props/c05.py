"""C05 - CFDP fixed PDU header (CCSDS 727.0-B-5 5.1)."""
from ..ops import perform, record

RULE = ("A: TLC grid - all 2^7 flag combinations x 16 width pairs x 3 ID patterns (distinct octets per field, all-FF, 80 00..) x "
        "data-field lengths {0,1,258,65535}; refusal grid (mixed ID widths, length > 65535); decoder accept/reject table over "
        "(octet 1, octet 4) values; all strict prefixes for every width pair - executed on the code. B: recorded calls with "
        "random IDs / sequence numbers over the full width range, every data-field length (stride in quick), all 65 536 "
        "(octet 1, octet 4) pairs through the decoder, validated by TLC. distinct = distinct (op, args).")


def classify(e):
    a = e["a"]
    if "h" in a:
        h = a["h"]
        return f"idw={len(h['src'])}/{len(h['dst'])},seqw={len(h['seq'])},dlen>65535={int(h['dlen'] > 65535)}"
    b = a["octets"]
    if len(b) >= 4:
        return f"ver={'ok' if b[0] >> 5 == 1 else 'bad'},idcode={(b[3] >> 4 & 7) + 1},seqcode={(b[3] & 7) + 1}"
    return "len<4"


def rnd_id(rng, w):
    return rng.choice([[0] * w, [255] * w, [rng.randrange(256) for _ in range(w)], [rng.randrange(256) for _ in range(w)]])


def events(ctx):
    rng = ctx.rng
    # inputs beginning with each octet pattern named as a literal in the source of the tree under test
    from ..core import source_constants
    for c in source_constants():
        raw = [0x2E, 0, 9, 0x11, 1, 2, 3, 4, 5, 6, 7]
        yield record("cfdphdr.unpack", {"octets": list(c) + raw})
        yield record("cfdphdr.unpack", {"octets": list(c) + raw[len(c):] + [9] * 12})
    def hdr(idw, seqw, dlen=None):
        return {"type": rng.randrange(2), "dir": rng.randrange(2), "mode": rng.randrange(2), "crc": rng.randrange(2),
                "large": rng.randrange(2), "dlen": rng.randrange(65536) if dlen is None else dlen,
                "segctrl": rng.randrange(2), "segmeta": rng.randrange(2), "src": rnd_id(rng, idw),
                "seq": rnd_id(rng, seqw), "dst": rnd_id(rng, idw)}
    for dl in range(0, 65536, ctx.q(17, 1)):
        yield record("cfdphdr.rt", {"h": hdr(rng.choice([1, 2, 4, 8]), rng.choice([1, 2, 4, 8]), dl), "sfx": []})
    for _ in range(ctx.q(15000, 600000)):
        sfx = [] if rng.random() < 0.7 else [rng.randrange(256) for _ in range(rng.randrange(1, 12))]
        e = {"h": hdr(rng.choice([1, 2, 4, 8]), rng.choice([1, 2, 4, 8])), "sfx": sfx}
        if rng.random() < 0.25:
            e["via"] = "inplace"
        yield record("cfdphdr.rt", e)
    for _ in range(300):
        h = hdr(rng.choice([1, 2, 4, 8]), rng.choice([1, 2, 4, 8]))
        kind = rng.randrange(3)
        if kind == 0:
            h["dst"] = rnd_id(rng, rng.choice([w for w in (1, 2, 4, 8) if w != len(h["src"])]))
        elif kind == 1:
            h["dlen"] = 65536 + rng.randrange(0, 70000)
        yield record("cfdphdr.rt", {"h": h, "sfx": []})
    tail = list(range(1, 25))
    for o1 in range(256):
        for o4 in range(256):
            yield record("cfdphdr.unpack", {"octets": [o1, (o1 * 7) & 0xFF, o4 ^ 0x5A, o4] + tail})
    for _ in range(ctx.q(5000, 200000)):
        n = rng.choice([0, 1, 3, 4, 6, 7, 8, 10, 12, 16, 20, 28, 30])
        b = [rng.randrange(256) for _ in range(n)]
        if b and rng.random() < 0.7:
            b[0] = 0x20 | (b[0] & 0x1F)
        if len(b) >= 4 and rng.random() < 0.7:
            b[3] = (b[3] & 0x88) | rng.choice([0, 1, 3, 7]) << 4 | rng.choice([0, 1, 3, 7])
        yield record("cfdphdr.unpack", {"octets": b})


def run(ctx):
    ctx.rule = RULE
    ctx.assumptions = ["adapters vp/ops_cfdp.py project objects by attribute reads only",
                       "TLC evaluates Cfdp.tla (header layout from CCSDS 727.0-B-5 5.1 written with div/mod)"]
    ctx.symbolic_laws(['Law_CfdpFixed'])
    ctx.replay_vectors("MC_Codec", "MC_Codec.cfg", perform, "grid", classify, consts='CONSTANT Area = "cfdphdr"',
                       need_actions=("PickVector",))
    ctx.validate_events(events(ctx), "calls", classify)
    from .. import repotests
    repotests.codec_stage(ctx, "C05")       # the calls the repository's own tests make, judged by the specification
    ctx.exhaustive = False
    ctx.extra["exhaustive_subspaces"] = ["all 2^7 flag combinations x 16 width pairs (grid)",
                                         "all 65 536 (octet 1, octet 4) pairs through the decoder"] + (
        ["every data-field length 0..65535"] if ctx.thorough else [])
