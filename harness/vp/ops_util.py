"""Adapters for spacepackets.util: unsigned byte fields and the integer/octet conversion helpers.
Integers are carried as {"neg": bool, "mag": [big-endian octets]}."""
from __future__ import annotations

from .core import outcome, octs


def to_int(x):
    v = int.from_bytes(bytes(x["mag"]), "big")
    return -v if x["neg"] else v


def _int_octets(v, w):
    if v < 0:
        return {"negative": str(v)}
    n = max(w, (v.bit_length() + 7) // 8)
    return list(v.to_bytes(n, "big"))


def views(f):
    w = len(f)
    h = f.hex_str
    return {"w": w, "octets": octs(f.as_bytes), "int": _int_octets(int(f), w), "len": int(f.byte_len),
            "hex": [] if h is None else list(h.encode())}


def _cls(w):
    from spacepackets import util as U
    return {0: U.ByteFieldEmpty, 1: U.ByteFieldU8, 2: U.ByteFieldU16, 4: U.ByteFieldU32, 8: U.ByteFieldU64}[w]


def mk_field(w, val, via="ctor"):
    from spacepackets.util import UnsignedByteField, ByteFieldGenerator
    if via == "gen":
        return ByteFieldGenerator.from_int(w, val)
    if via == "cls":
        if w == 0:
            if val != 0:
                raise ValueError("harness: the empty field has no value parameter")
            return _cls(0)()
        return _cls(w)(val)
    return UnsignedByteField(val, w)


def op_bf_new(a):
    from spacepackets.util import UnsignedByteField

    def run():
        w, val = a["w"], to_int(a["x"])
        # twin probe: an object built from the very same arguments is changed in place first - the object under test must
        # not be that object nor share state with it (memoised / pooled fields)
        try:
            twin = mk_field(w, val, a.get("via", "ctor"))
            if w:
                twin.value = (val + 1) % (1 << (8 * w))
        except Exception:  # noqa
            pass
        f = mk_field(w, val, a.get("via", "ctor"))
        g = UnsignedByteField(val, w)
        back = [] if w == 0 else [views(UnsignedByteField.from_bytes(bytes(f.as_bytes)))]
        eq = bool(f == g) and bool(g == f) and (w == 0 or bool(UnsignedByteField.from_bytes(bytes(f.as_bytes)) == f))
        eq = eq and bool(f == bytes(f.as_bytes))
        return {"views": views(f), "back": back, "eq": eq, "hashok": hash(f) == hash(g)}
    return outcome(run)


def op_bf_from_bytes(a):
    from spacepackets.util import UnsignedByteField, ByteFieldGenerator

    def run():
        raw = bytes(a["octets"])
        if a["route"] == "base":
            f = UnsignedByteField.from_bytes(raw)
        elif a["route"] == "gen":
            f = ByteFieldGenerator.from_bytes(a["w"], raw)
        else:
            c = _cls(a["w"])
            f = {1: lambda: c.from_u8_bytes(raw), 2: lambda: c.from_u16_bytes(raw), 4: lambda: c.from_u32_bytes(raw),
                 8: lambda: c.from_u64_bytes(raw)}[a["w"]]()
        return {"views": views(f)}
    return outcome(run)


def op_bf_set(a):
    from spacepackets.util import UnsignedByteField

    def run():
        v0 = int.from_bytes(bytes(a["v0"]), "big")
        if (a["w"] + sum(a["v0"])) % 2:
            # a history: the field had another width before (public byte_len setter), then received its value
            f = UnsignedByteField(0, {0: 1, 1: 8, 2: 1, 4: 8, 8: 2}[a["w"]])
            f.byte_len = a["w"]
            f.value = v0
        else:
            f = UnsignedByteField(v0, a["w"])
        many = None
        if (a["w"] * 7 + sum(a["v0"]) + len(a["octets"])) % 8 == 5 and a["w"] > 0:
            # a long-lived field: its hash is taken, then it is re-assigned exactly 256 (or 65 536) times, the last assignment
            # being the one under test; afterwards it must hash like a fresh field of the same (value, width)
            many = 65536 if sum(a["v0"]) % 2 else 256
            hash(f)
            for i in range(many - 2):
                f.value = (v0 + 1 + i) % (1 << (8 * a["w"]))
            f.value = v0                              # (back at the starting value: a refusal must leave exactly that)
        try:
            if a["by"] == "int":
                f.value = to_int(a["x"])
            else:
                f.value = bytes(a["octets"]) if len(a["octets"]) % 2 else bytearray(a["octets"])
        except Exception as e:  # noqa
            from .core import family
            # a refused assignment must leave every view as it was
            return {"exc": family(e), "after": views(f)}
        # first thing after the assignment, before any view is read: the field equals the octets of its own value
        own = bool(f == int(f).to_bytes(len(f), "big")) if len(f) else True
        out = {"views": views(f)}
        if not own:
            out["equals_own_octets"] = False
        if many and hash(f) != hash(UnsignedByteField(int(f), len(f))):
            out["hash_after_%d_assignments" % many] = "differs from a fresh field's"
        return out
    return outcome(run)


def op_bf_eq(a):
    from spacepackets.util import UnsignedByteField

    def run():
        def mk(v, w, salt):
            # the generic class, or (by a deterministic choice) the width-specific convenience class of the same field;
            # ByteFieldEmpty(w) is the zero field of width w
            val = int.from_bytes(bytes(v), "big")
            import zlib
            if zlib.crc32(repr((val, w, salt, a["w1"], a["w2"])).encode()) % 2 == 0:
                from spacepackets import util as U
                if val == 0:
                    return U.ByteFieldEmpty(w)
                if w in (1, 2, 4, 8):
                    return _cls(w)(val)
            return UnsignedByteField(val, w)
        f1 = mk(a["v1"], a["w1"], 0)
        f2 = mk(a["v2"], a["w2"], 1)
        e1, e2 = bool(f1 == f2), bool(f2 == f1)
        if e1 != e2:
            return {"eq": "asymmetric"}
        return {"eq": e1, "hashok": (hash(f1) == hash(f2)) if e1 else True}
    return outcome(run)


def op_ibc_unsigned(a):
    from spacepackets.util import IntByteConversion
    return outcome(lambda: {"octets": octs(IntByteConversion.to_unsigned(a["w"], to_int(a["x"])))})


def op_ibc_signed(a):
    from spacepackets.util import IntByteConversion
    return outcome(lambda: {"octets": octs(IntByteConversion.to_signed(a["w"], to_int(a["x"])))})


OPS = {"bf.new": op_bf_new, "bf.from_bytes": op_bf_from_bytes, "bf.set": op_bf_set, "bf.eq": op_bf_eq,
       "ibc.unsigned": op_ibc_unsigned, "ibc.signed": op_ibc_signed}
