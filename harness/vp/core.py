"""Core of the conformance harness: repository import, TLC runner, trace validation
(code -> spec), vector / edge replay (spec -> code), verdicts, evidence, known findings.

Nothing here knows a wire format: formats live in /verif/spec/*.tla, the library calls
live in vp/ops_*.py and the drivers in vp/props/*.py.
"""
from __future__ import annotations

import hashlib
import json
import os
import random
import re
import shutil
import signal
import subprocess
import sys
import tempfile
import time
from concurrent.futures import ThreadPoolExecutor

VERIF = os.path.dirname(os.path.dirname(os.path.dirname(os.path.abspath(__file__))))
SPEC_DIR = os.path.join(VERIF, "spec")
EVID_DIR = os.environ.get("VERIF_EVIDENCE_DIR") or os.path.join(VERIF, "evidence")   # mutant self-tests write elsewhere
REPLAY_DIR = os.path.join(EVID_DIR, "replay")
KNOWN_FILE = os.path.join(VERIF, "known_findings.jsonl")
TLA_CP = "/opt/veriftools/tla/tla2tools.jar:/opt/veriftools/tla/CommunityModules-deps.jar"
NCPU = os.cpu_count() or 4


class MachineryError(Exception):
    """The checker itself failed (TLC error, spec bug, missing tool): exit status 2."""


# ---------------------------------------------------------------------------------------
# repository under test
# ---------------------------------------------------------------------------------------
def import_repo():
    repo = os.environ.get("VERIF_REPO", "/repo")
    repo = os.path.abspath(repo)
    if sys.path[0] != repo:
        sys.path.insert(0, repo)
    for m in [m for m in sys.modules if m == "spacepackets" or m.startswith("spacepackets.")]:
        del sys.modules[m]
    import spacepackets  # noqa

    f = os.path.abspath(spacepackets.__file__)
    if not f.startswith(repo + os.sep):
        raise MachineryError(f"spacepackets imported from {f}, not from {repo}")
    return repo


# ---------------------------------------------------------------------------------------
# canonical json helpers
# ---------------------------------------------------------------------------------------
def canon(x):
    return json.dumps(x, sort_keys=True, separators=(",", ":"))


def short(x, n=400):
    s = canon(x) if not isinstance(x, str) else x
    return s if len(s) <= n else s[: n - 20] + f"...({len(s)} chars)"


def shrink(x, maxlist=24):
    """Shorten long octet lists for samples / messages."""
    if isinstance(x, list):
        if len(x) > maxlist and all(isinstance(i, int) for i in x):
            return x[:8] + [f"...{len(x) - 16} more..."] + x[-8:]
        return [shrink(i, maxlist) for i in x[:maxlist]] + (["..."] if len(x) > maxlist else [])
    if isinstance(x, dict):
        return {k: shrink(v, maxlist) for k, v in x.items()}
    return x


def matches(exp, out):
    """Python twin of Octets!Matches."""
    if isinstance(exp, dict) and "any" in exp:
        return True
    if isinstance(exp, dict) and "okorrej" in exp:
        return not (isinstance(out, dict) and "exc" in out) or out["exc"] in exp["okorrej"]
    if isinstance(exp, dict) and "anyof" in exp:
        return any(_match_plain(x, out) for x in exp["anyof"])
    return _match_plain(exp, out)


def _match_plain(exp, out):
    if isinstance(exp, dict) and "rej" in exp:
        return (isinstance(out, dict) and "exc" in out and (out["exc"] in exp["rej"] or "*" in exp["rej"])
                and ("late" not in out or "late" in exp) and ("after" not in exp or out.get("after") == exp["after"]))
    return exp == out


def first_diff(exp, out, path=""):
    """Name the first clause in which expectation and observation differ."""
    if isinstance(exp, dict) and "okorrej" in exp:
        return (path + "." if path else "") + "exc.family"
    if isinstance(exp, dict) and "anyof" in exp:
        return (path or "outcome") + ".anyof"
    if isinstance(exp, dict) and "rej" in exp:
        if isinstance(out, dict) and "exc" in out and "late" in out and "late" not in exp:
            return (path + "." if path else "") + "packed-then-failed"   # octets were emitted although packing must fail
        if isinstance(out, dict) and "exc" in out and "after" in exp and out.get("after") != exp["after"]:
            return (path + "." if path else "") + "state-after-refusal"
        if isinstance(out, dict) and "exc" in out:
            return (path + "." if path else "") + "exc.family"
        return (path + "." if path else "") + "accept"      # accepted although it must be refused
    if isinstance(out, dict) and "exc" in out and not (isinstance(exp, dict) and "exc" in exp):
        return (path + "." if path else "") + "reject"      # refused although it must be accepted
    if isinstance(exp, dict) and isinstance(out, dict):
        for k in sorted(set(exp) | set(out)):
            if k not in exp or k not in out:
                return f"{path}.{k}".lstrip(".") + ".missing"
            if exp[k] != out[k]:
                return first_diff(exp[k], out[k], f"{path}.{k}".lstrip("."))
        return path or "equal"
    if isinstance(exp, list) and isinstance(out, list):
        if len(exp) != len(out):
            return (path or "value") + ".len"
        if exp and all(isinstance(i, int) for i in exp) and all(isinstance(i, int) for i in out):
            return path or "value"
        for i, (a, b) in enumerate(zip(exp, out)):
            if a != b:
                return first_diff(a, b, path)
        return path or "equal"
    return path or "value"


# ---------------------------------------------------------------------------------------
# watchdog for calls into the library ("never loops")
# ---------------------------------------------------------------------------------------
class Watchdog(Exception):
    pass


_WD = {"cpu": 0.0, "left": 0, "timeout": 5.0}


def _alarm(signum, frame):
    # a call that really loops burns processor time; a process that was merely starved (a loaded machine, a stopped
    # scheduler slice) has used little of it since the timer was set: give it more wall-clock time, a bounded number of times
    import time as _t
    used = _t.process_time() - _WD["cpu"]
    if used < 0.5 * _WD["timeout"] and _WD["left"] > 0:
        _WD["left"] -= 1
        signal.setitimer(signal.ITIMER_REAL, _WD["timeout"])
        return
    raise Watchdog()


def guarded(fn, *args, timeout=5.0):
    import time as _t
    old = signal.signal(signal.SIGALRM, _alarm)
    _WD.update(cpu=_t.process_time(), left=24, timeout=timeout)
    signal.setitimer(signal.ITIMER_REAL, timeout)
    try:
        return fn(*args)
    finally:
        signal.setitimer(signal.ITIMER_REAL, 0)
        signal.signal(signal.SIGALRM, old)


# ---------------------------------------------------------------------------------------
# TLC
# ---------------------------------------------------------------------------------------
_SUMMARY = re.compile(r"^(\d+) states generated, (\d+) distinct states found, (\d+) states left")
_COVLINE = re.compile(r"^<(\w+) line (\d+), col (\d+) to line (\d+), col (\d+) of module (\w+)(?: \([\d ]+\))?>: (\d+):(\d+)")


def run_tlc(workdir, module, cfg, *, workers=NCPU, env=None, timeout=3600, line_cb=None,
            coverage=False, xmx="6g", extra=(), simulate=None, dfs=False):
    """Run TLC on workdir/module.tla with workdir/cfg. Returns a dict with generated /
    distinct state counts, error lines, coverage {action: (distinct, generated)}."""
    meta = tempfile.mkdtemp(prefix="meta-", dir=workdir)
    # (TLC extracts the standard modules into java.io.tmpdir: keep that inside the run's own directory so nothing is left in /tmp)
    cmd = ["java", "-XX:+UseParallelGC", f"-Xmx{xmx}", "-Xss64m", f"-Djava.io.tmpdir={meta}"]
    if dfs:
        cmd.append("-Dtlc2.tool.queue.IStateQueue=StateDeque")
    if workers and workers < NCPU:
        cmd.append(f"-XX:ActiveProcessorCount={max(2, workers)}")
    cmd += ["-cp", TLA_CP, "tlc2.TLC", "-workers", str(workers), "-metadir", meta,
            "-noGenerateSpecTE", "-config", cfg]
    if coverage:
        cmd += ["-coverage", "1"]
    if simulate:
        cmd += ["-simulate", simulate]
    cmd += list(extra) + [module]
    e = dict(os.environ)
    e.pop("JAVA_TOOL_OPTIONS", None)
    if env:
        e.update(env)
    res = {"generated": 0, "distinct": 0, "errors": [], "coverage": {}, "cmd": " ".join(cmd),
           "finished": False}
    t0 = time.time()
    p = subprocess.Popen(cmd, cwd=workdir, env=e, stdout=subprocess.PIPE, stderr=subprocess.STDOUT,
                         text=True, bufsize=1 << 20)
    in_err = 0
    try:
        for line in p.stdout:
            line = line.rstrip("\n")
            if time.time() - t0 > timeout:
                p.kill()
                res["errors"].append(f"TLC timeout after {timeout}s")
                break
            if line_cb is not None and line.startswith('"'):
                line_cb(line)
                continue
            m = _SUMMARY.match(line)
            if m:
                res["generated"], res["distinct"] = int(m.group(1)), int(m.group(2))
                continue
            if line.startswith("Model checking completed") or line.startswith("Finished in"):
                res["finished"] = True
            if line.startswith("Error:") or "Exception" in line and "java" in line:
                in_err = 12
            if in_err > 0:
                res["errors"].append(line)
                in_err -= 1
            m = _COVLINE.match(line)
            if m and coverage:
                name = m.group(1)
                d, g = int(m.group(7)), int(m.group(8))
                old = res["coverage"].get(name, (0, 0))
                res["coverage"][name] = (old[0] + d, old[1] + g)
    finally:
        p.wait()
        shutil.rmtree(meta, ignore_errors=True)
    res["rc"] = p.returncode
    res["wall_s"] = time.time() - t0
    return res


def tlc_string(line):
    """Decode a TLC-printed string literal (one line, starts and ends with a quote)."""
    try:
        return json.loads(line)
    except Exception:
        s = line[1:-1]
        return s.replace('\\"', '"').replace("\\\\", "\\")


# ---------------------------------------------------------------------------------------
# known findings
# ---------------------------------------------------------------------------------------
def load_known():
    out = []
    if os.path.exists(KNOWN_FILE):
        with open(KNOWN_FILE) as f:
            for ln in f:
                ln = ln.strip()
                if ln and not ln.startswith("#"):
                    out.append(json.loads(ln))
    return out


# ---------------------------------------------------------------------------------------
# a check run
# ---------------------------------------------------------------------------------------
class Ctx:
    def __init__(self, prop, tier, seed, level="model_checking"):
        self.prop, self.tier, self.seed, self.level = prop, tier, seed, level
        self.thorough = tier == "thorough"
        self.rng = random.Random(seed * 1000003 + int(prop[1:]))
        self.t0 = time.time()
        self.scratch = tempfile.mkdtemp(prefix=f"vp-{prop}-")
        self.repo = import_repo()
        self.evaluations = 0
        self.distinct = set()
        self.states = 0
        self.transitions = 0
        self.traces = 0
        self.samples = []
        self.actions = {}
        self.notes = []
        self.violations = {}     # fingerprint -> info
        self.known_hit = {}
        self.assumptions = []
        self.exhaustive = None
        self.rule = ""
        self.extra = {}
        self.known = [k for k in load_known() if k.get("property") == prop and k.get("status") == "finding"]

    # -- bookkeeping ---------------------------------------------------------------
    def q(self, quick, thorough):
        return thorough if self.thorough else quick

    def count(self, key, nontrivial=True):
        self.evaluations += 1
        if nontrivial:
            self.distinct.add(hashlib.blake2b(key.encode(), digest_size=8).digest()
                              if isinstance(key, str) else key)

    def sample(self, s, limit=6):
        if len(self.samples) < limit:
            self.samples.append(shrink(s))

    def note(self, s):
        self.notes.append(s)
        print(f"[{self.prop}] {s}", flush=True)

    def workdir(self, name):
        d = os.path.join(self.scratch, name)
        os.makedirs(d, exist_ok=True)
        for f in os.listdir(SPEC_DIR):
            if f.endswith(".tla") or f.endswith(".cfg"):
                shutil.copy(os.path.join(SPEC_DIR, f), d)
        return d

    # -- violations ------------------------------------------------------------------
    def violation(self, fp, what, replay):
        """fp: fingerprint string; what: human text; replay: json-able dict to re-execute."""
        for k in self.known:
            if k.get("fingerprint") == fp:
                self.known_hit.setdefault(fp, k)
                return
        v = self.violations.get(fp)
        if v:
            v["count"] += 1
            return
        os.makedirs(REPLAY_DIR, exist_ok=True)
        h = hashlib.sha1(fp.encode()).hexdigest()[:10]
        path = os.path.join(REPLAY_DIR, f"{self.prop}-{h}.json")
        replay = dict(replay)
        replay.update({"property": self.prop, "fingerprint": fp, "what": what})
        with open(path, "w") as f:
            json.dump(replay, f, indent=1, sort_keys=True)
        self.violations[fp] = {"count": 1, "what": what, "replay": path}

    # -- finish ------------------------------------------------------------------------
    def finish(self):
        wall = time.time() - self.t0
        cov = {
            "evaluations": self.evaluations,
            "distinct_nontrivial": len(self.distinct),
            "rule": self.rule,
            "samples": self.samples or ["(none)"],
            "states": self.states,
            "transitions": self.transitions,
            "traces_validated_against_impl": self.traces,
            "spec_actions": self.actions,
            "notes": self.notes,
        }
        if self.exhaustive is not None:
            cov["exhaustive"] = self.exhaustive
        cov.update(self.extra)
        if self.level != "model_checking":
            for k in ("states", "transitions", "traces_validated_against_impl"):
                if not cov[k]:
                    cov.pop(k)
        ev = {
            "property_id": self.prop, "tier": self.tier, "seed": self.seed, "level": self.level,
            "coverage": cov, "assumptions": self.assumptions, "wall_s": round(wall, 2),
            "violations": len(self.violations),
        }
        os.makedirs(EVID_DIR, exist_ok=True)
        with open(os.path.join(EVID_DIR, f"{self.prop}.json"), "w") as f:
            json.dump(ev, f, indent=1, sort_keys=True)
        shutil.rmtree(self.scratch, ignore_errors=True)
        for fp, k in sorted(self.known_hit.items()):
            print(f"KNOWN-FINDING: property={self.prop} {k.get('what', fp)} [{fp}]")
        for fp, v in sorted(self.violations.items()):
            print(f"VIOLATION property={self.prop} replay={v['replay']}")
            print(f"  {fp}  x{v['count']}: {v['what']}")
        print(f"[{self.prop}] {self.tier}: evaluations={self.evaluations} distinct={len(self.distinct)} "
              f"states={self.states} transitions={self.transitions} traces={self.traces} "
              f"violations={len(self.violations)} known={len(self.known_hit)} wall={wall:.1f}s", flush=True)
        return 1 if self.violations else 0

    def abort_cleanup(self):
        shutil.rmtree(self.scratch, ignore_errors=True)

    # -------------------------------------------------------------------------------
    # Direction B: events recorded from the real code, validated by TLC against Exp
    # -------------------------------------------------------------------------------
    def driver_exception(self, ex, label):
        """An exception that came out of the LIBRARY while a driver was preparing valid inputs (packing a legal unit, ...):
        a deviation of the library - reported as a violation; the events produced so far are still validated."""
        import traceback
        repo = os.path.abspath(os.environ.get("VERIF_REPO", "/repo")) + os.sep
        frames = traceback.extract_tb(ex.__traceback__)
        lib = [f for f in frames if os.path.abspath(f.filename).startswith(repo)]
        if not lib:
            raise ex
        last = lib[-1]
        self.violation(f"driver/{type(ex).__name__}/{os.path.basename(last.filename)}:{last.name}",
                       f"{label}: the library raised {type(ex).__name__}: {ex} in {os.path.basename(last.filename)}:{last.lineno} "
                       f"({last.name}) while the driver was preparing valid inputs; the remaining inputs of this stage were not generated",
                       {"kind": "driver-exception", "exception": type(ex).__name__, "message": str(ex)[:300],
                        "traceback": [f"{os.path.basename(f.filename)}:{f.lineno}:{f.name}" for f in frames][-12:]})

    def validate_events(self, events, label, classify=None, module="TraceCodec", shard=5000):
        """events: iterable of {"op","a","o"} recorded from the real code; ids are assigned
        here. The stream is cut into shards that TLC validates in parallel while the driver
        keeps producing. TLC evaluates the specification's expectation for every event and
        reports each event that does not match (total verdict: validation never stops early)."""
        wd = self.workdir(f"trace-{label}")
        bad, done, errors, results, files = {}, {}, [], [], []

        def run(item):
            fn, n = item

            def cb(line):
                s = tlc_string(line)
                if s.startswith("BAD "):
                    _, i, js = s.split(" ", 2)
                    bad[int(i)] = json.loads(js)
                elif s.startswith("DONE "):
                    done[fn] = int(s.split()[1])
            r = run_tlc(wd, module + ".tla", module + ".cfg", workers=1, env={"TRACE_FILE": fn},
                        line_cb=cb, xmx="3g", timeout=3000)
            if (r["errors"] or not r["finished"]) and module == "TraceCodec":
                # TLC could not evaluate the comparison (an observation of an unexpected type): let it compute the expectations
                # only, from a copy of the shard without the observations, and compare here
                r = fallback(fn, n) or r
            if r["errors"] or not r["finished"]:
                errors.append((fn, r["errors"][:12], r["cmd"]))
            results.append(r)

        def fallback(fn, n):
            evs = [json.loads(ln) for ln in open(fn)]
            fn2 = fn + ".exp"
            with open(fn2, "w") as f:
                for e in evs:
                    f.write(canon({"id": e["id"], "op": e["op"], "a": e["a"]}) + "\n")
            exps = {}

            def cb2(line):
                s = tlc_string(line)
                if s.startswith("EXP "):
                    _, i, js = s.split(" ", 2)
                    exps[int(i)] = json.loads(js)
                elif s.startswith("DONE "):
                    done[fn] = int(s.split()[1])
            r2 = run_tlc(wd, module + ".tla", module + ".cfg", workers=1, env={"TRACE_FILE": fn2, "VP_MODE": "exp"},
                         line_cb=cb2, xmx="3g", timeout=3000)
            if r2["errors"] or not r2["finished"] or len(exps) != n:
                return None
            for k in [k for k in bad if any(e["id"] == k for e in evs)]:
                del bad[k]
            for e in evs:
                if not matches(exps[e["id"]], e["o"]):
                    bad[e["id"]] = exps[e["id"]]
            self.note(f"{label}: TLC could not evaluate the comparison in one shard; expectations computed by TLC, compared by the harness")
            return r2

        total = 0
        futures = []
        with ThreadPoolExecutor(max_workers=NCPU) as ex:
            f = None
            n_in = 0
            def with_side(it):
                it = iter(it)
                while True:
                    try:
                        x = next(it)
                    except StopIteration:
                        return
                    except MachineryError:
                        raise
                    except Exception as ex:  # noqa - the library raised while the driver prepared valid inputs
                        self.driver_exception(ex, label)
                        return
                    yield x
                    while SIDE:
                        yield SIDE.pop(0)
            for e in with_side(events):
                if f is None:
                    fn = os.path.join(wd, f"shard{len(files)}.ndjson")
                    f = open(fn, "w")
                    n_in = 0
                e["id"] = total
                line = canon(e)
                f.write(line)
                f.write("\n")
                self.count(canon([e["op"], e["a"]]))
                if total % 1999 == 0:
                    self.sample({"from": "recorded call", "op": e["op"], "a": e["a"], "observed": e["o"]})
                total += 1
                n_in += 1
                if n_in >= shard:
                    f.close()
                    files.append((fn, n_in))
                    futures.append(ex.submit(run, files[-1]))
                    f = None
            if f is not None:
                f.close()
                files.append((fn, n_in))
                futures.append(ex.submit(run, files[-1]))
            for fu in futures:
                fu.result()
        if errors:
            raise MachineryError(f"TLC failed validating {label}: {errors[0]}")
        for fn, n in files:
            if done.get(fn) != n:
                raise MachineryError(f"trace {fn}: TLC consumed {done.get(fn)} of {n} events")
        self.traces += len(files)
        self.states += sum(r["distinct"] for r in results)
        self.transitions += sum(r["generated"] for r in results)
        loaded = (None, None)
        for i in sorted(bad):
            fn, _ = files[i // shard]
            if loaded[0] != fn:                      # each shard is read once, however many of its events were rejected
                with open(fn) as fh:
                    loaded = (fn, fh.readlines())
            e = json.loads(loaded[1][i % shard])
            exp = bad[i]
            clause = first_diff(exp, e["o"])
            cls = _classify(classify, e)
            fp = f"{e['op']}/{clause}/{cls}"
            self.violation(fp, f"spec expects {short(shrink(exp))} but code gave {short(shrink(e['o']))} "
                               f"for {e['op']} {short(shrink(e['a']))}",
                           {"kind": "event", "direction": "code->spec", "event": e, "expected": exp})
        self.note(f"{label}: {total} recorded calls validated by TLC against the specification in "
                  f"{len(files)} shard(s), {len(bad)} rejected")
        shutil.rmtree(wd, ignore_errors=True)

    # -------------------------------------------------------------------------------
    # Direction A: vectors chosen and predicted by TLC, replayed on the real code
    # -------------------------------------------------------------------------------
    def replay_vectors(self, module, cfg, perform, label, classify=None, workers=NCPU, consts=None,
                       env=None, timeout=3000, need_actions=()):
        """Model-check `module` (bounded grid + laws as invariants); every explored grid
        vector is printed by the spec as "EMIT {op,a,o}"; each is executed on the real code
        and compared with the specification's expectation o."""
        wd = self.workdir(f"mc-{label}")
        if module == "MC_Codec":
            consts = (consts or "") + f'\nCONSTANT Tier = "{self.tier}"'
        if consts:
            with open(os.path.join(wd, cfg), "a") as f:
                f.write("\n" + consts + "\n")
        n = [0, 0]
        ops_seen = {}

        def cb(line):
            s = tlc_string(line)
            if not s.startswith("EMIT "):
                return
            v = json.loads(s[5:])
            n[0] += 1
            ops_seen[v["op"]] = ops_seen.get(v["op"], 0) + 1
            out = perform(v["op"], v["a"])
            self.count(canon([v["op"], v["a"]]))
            if n[0] % 997 == 1:
                self.sample({"from": "TLC grid", "op": v["op"], "a": v["a"], "expected": v["o"]})
            if not matches(v["o"], out):
                n[1] += 1
                clause = first_diff(v["o"], out)
                e = {"op": v["op"], "a": v["a"], "o": out}
                cls = _classify(classify, e)
                fp = f"{v['op']}/{clause}/{cls}"
                self.violation(fp, f"spec expects {short(shrink(v['o']))} but code gave {short(shrink(out))} "
                                   f"for {v['op']} {short(shrink(v['a']))}",
                               {"kind": "event", "direction": "spec->code", "event": e, "expected": v["o"]})

        # (-coverage costs about 70 s on the full codec specification: the per-operation counts of the
        # emitted vectors serve as the vacuity guard instead)
        r = run_tlc(wd, module + ".tla", cfg, workers=workers, line_cb=cb, coverage=False, env=env,
                    timeout=timeout)
        if r["errors"] or not r["finished"]:
            raise MachineryError(f"TLC failed on {module}/{cfg}: {r['errors'][:14]} :: {r['cmd']}")
        self.states += r["distinct"]
        self.transitions += r["generated"]
        for op, k in ops_seen.items():
            self.actions[f"{module}.PickVector[{op}]"] = self.actions.get(f"{module}.PickVector[{op}]", 0) + k
        if need_actions and not n[0]:
            raise MachineryError(f"vacuity: no vector of {module} was explored")
        self.traces += n[0]
        self.note(f"{label}: TLC explored {r['distinct']} states / {r['generated']} transitions of {module} "
                  f"({cfg}); {n[0]} emitted vectors replayed on the code, {n[1]} mismatches")
        if SIDE:
            # observations the adapters made on the way (obs.pack after the caller re-used its objects): validated as recorded calls
            side = list(SIDE)
            del SIDE[:]
            self.validate_events(iter(side), label + "-side", classify)
        return r


    # -------------------------------------------------------------------------------
    # Direction A for state machines: the labelled state graph explored by TLC
    # -------------------------------------------------------------------------------
    def explore_graph(self, module, cfg, label, on_edge, consts=None, workers=1, timeout=3000, on_meta=None,
                      need_actions=(), emit=True, coverage=True):
        """Model-check a state machine spec; every explored transition is printed by the spec's
        ACTION_CONSTRAINT as "EMIT {src, ev, dst, ...}" and handed to on_edge(dict)."""
        wd = self.workdir(f"mc-{label}")
        if consts:
            with open(os.path.join(wd, cfg), "a") as f:
                f.write("\n" + consts + "\n")
        n = [0]

        def cb(line):
            s = tlc_string(line)
            if s.startswith("EMIT "):
                n[0] += 1
                on_edge(json.loads(s[5:]))
            elif s.startswith("META ") and on_meta:
                on_meta(json.loads(s[5:]))

        r = run_tlc(wd, module + ".tla", cfg, workers=workers, line_cb=cb, coverage=coverage, timeout=timeout, xmx="12g")
        if r["errors"] or not r["finished"]:
            raise MachineryError(f"TLC failed on {module}/{cfg}: {r['errors'][:16]} :: {r['cmd']}")
        self.states += r["distinct"]
        self.transitions += r["generated"]
        for a, (d, g) in r["coverage"].items():
            self.actions[f"{module}.{a}"] = self.actions.get(f"{module}.{a}", 0) + g
        for a in need_actions:
            if coverage and not r["coverage"].get(a, (0, 0))[1]:
                raise MachineryError(f"vacuity: action {a} of {module} never taken")
        self.note(f"{label}: TLC explored {r['distinct']} distinct states / {r['generated']} transitions of {module} "
                  f"({cfg}), all invariants and action properties hold on the specification; {n[0]} transitions emitted")
        shutil.rmtree(wd, ignore_errors=True)
        return r

    # -------------------------------------------------------------------------------
    # Symbolic full-range laws (Apalache): the layout laws for ALL values of every field
    # -------------------------------------------------------------------------------
    def symbolic_laws(self, laws, timeout=420):
        """laws: names of Law_* invariants of spec/apalache/AP_Laws.tla. First TLC checks (MC_ApEquiv) that the typed
        transcription agrees with the specification's own operators on the grids, then apalache-mc checks each law with
        every field left symbolic over its full range. A law that fails is a defect of the specification (exit 2); a
        solver timeout is recorded, not judged."""
        wd = self.workdir("apalache")
        for f in os.listdir(os.path.join(SPEC_DIR, "apalache")):
            if f.endswith(".tla"):
                shutil.copy(os.path.join(SPEC_DIR, "apalache", f), wd)
        r = run_tlc(wd, "MC_ApEquiv.tla", "MC_ApEquiv.cfg", workers=1, xmx="3g", timeout=600)
        if r["errors"] or not r["finished"]:
            raise MachineryError(f"typed transcription AP_Layout disagrees with the specification (MC_ApEquiv): {r['errors'][:8]}")
        if not shutil.which("apalache-mc"):
            self.note("apalache-mc not found: symbolic laws skipped")
            return
        results = {}

        def one(law):
            out = os.path.join(wd, "out-" + law)
            t0 = time.time()
            try:
                # the apalache-mc launcher makes a SANY* directory under $TMPDIR for java.io.tmpdir and never removes it: keep it
                # inside the run directory
                env = dict(os.environ)
                jt = os.path.join(wd, "jtmp-" + law)
                os.makedirs(jt, exist_ok=True)
                env["TMPDIR"] = jt
                p = subprocess.run(["apalache-mc", "check", f"--inv={law}", "--length=0", f"--out-dir={out}", "AP_Laws.tla"],
                                   cwd=wd, capture_output=True, text=True, timeout=timeout, env=env)
                txt = p.stdout + p.stderr
                if "The outcome is: NoError" in txt:
                    results[law] = ("proved", time.time() - t0)
                elif "The outcome is: Error" in txt or "violated" in txt:
                    results[law] = ("violated", time.time() - t0)
                else:
                    results[law] = ("unknown: " + (txt.strip().splitlines() or ["?"])[-1][:120], time.time() - t0)
            except subprocess.TimeoutExpired:
                results[law] = ("timeout", time.time() - t0)
            shutil.rmtree(out, ignore_errors=True)

        with ThreadPoolExecutor(max_workers=min(len(laws), 6) or 1) as ex:
            list(ex.map(one, laws))
        bad = [x for x, (v, _) in results.items() if v == "violated"]
        if bad:
            raise MachineryError(f"specification law(s) {bad} do not hold for all field values (Apalache counterexample)")
        self.extra["symbolic_laws"] = {x: f"{v} in {t:.0f}s (apalache-mc --length=0, every field symbolic over its full range)"
                                       for x, (v, t) in sorted(results.items())}
        self.note("symbolic laws: " + ", ".join(f"{x}={v}" for x, (v, _) in sorted(results.items())))
        shutil.rmtree(wd, ignore_errors=True)

    def validate_trace(self, module, events, label, shard=20000):
        """Direction B for state machines: histories recorded from the real objects are checked
        by a stateful trace specification (module) that steps the spec's actions along the
        trace; returns {event id: failing clause(s)}; total (never stops at the first mismatch).
        A new history starts with an event whose op is "init"; shards are cut at such events."""
        wd = self.workdir(f"trace-{label}")
        files, cur, curfile = [], 0, None
        total = 0
        idx = {}
        def guarded_events(it):
            it = iter(it)
            while True:
                try:
                    yield next(it)
                except StopIteration:
                    return
                except MachineryError:
                    raise
                except Exception as ex:  # noqa
                    self.driver_exception(ex, label)
                    return
        for e in guarded_events(events):
            if curfile is None or (e["op"] == "init" and cur >= shard):
                if curfile:
                    curfile.close()
                fn = os.path.join(wd, f"hist{len(files)}.ndjson")
                files.append([fn, 0])
                curfile = open(fn, "w")
                cur = 0
            self.count(canon(e))
            e["id"] = total
            idx[total] = (len(files) - 1, cur)
            curfile.write(canon(e) + "\n")
            total += 1
            cur += 1
            files[-1][1] = cur
        if curfile:
            curfile.close()
        bad, done, errors, results = {}, {}, [], []

        def run(item):
            fn, n = item

            def cb(line):
                s = tlc_string(line)
                if s.startswith("BAD "):
                    parts = s.split(" ", 2)
                    bad[int(parts[1])] = parts[2] if len(parts) > 2 else "mismatch"
                elif s.startswith("DONE "):
                    done[fn] = int(s.split()[1])
            r = run_tlc(wd, module + ".tla", module + ".cfg", workers=1, env={"TRACE_FILE": fn}, line_cb=cb,
                        xmx="3g", timeout=3000)
            if r["errors"] or not r["finished"]:
                errors.append((fn, r["errors"][:12], r["cmd"]))
            results.append(r)

        with ThreadPoolExecutor(max_workers=NCPU) as ex:
            list(ex.map(run, files))
        if errors:
            raise MachineryError(f"TLC failed validating {label}: {errors[0]}")
        for fn, n in files:
            if done.get(fn) != n:
                raise MachineryError(f"trace {fn}: TLC consumed {done.get(fn)} of {n} events")
        self.traces += len(files)
        self.states += sum(r["distinct"] for r in results)
        self.transitions += sum(r["generated"] for r in results)
        out = {}
        for i, clause in bad.items():
            fi, li = idx[i]
            out[i] = clause
        self.note(f"{label}: {total} recorded events validated by TLC trace specification {module} in "
                  f"{len(files)} file(s), {len(bad)} rejected")
        self._trace_files = files
        self._trace_idx = idx
        return out

    def trace_history(self, i):
        """The recorded history (from its init event up to event i) containing event i."""
        fi, li = self._trace_idx[i]
        fn = self._trace_files[fi][0]
        cache = getattr(self, "_trace_cache", None)
        if cache is None or cache[0] != fn:
            evs, inits = [], []
            with open(fn) as f:
                for k, ln in enumerate(f):
                    e = json.loads(ln)
                    if e["op"] == "init":
                        inits.append(k)
                    evs.append(e)
            cache = self._trace_cache = (fn, evs, inits)
        _, evs, inits = cache
        import bisect
        j = bisect.bisect_right(inits, li) - 1
        start = inits[j] if j >= 0 else 0
        return evs[start:li + 1]


# ---------------------------------------------------------------------------------------
# outcome capture for library calls
# ---------------------------------------------------------------------------------------
def family(exc):
    """Map an exception to its documented family name, or UNDOC:<class>."""
    import struct as _struct
    n = type(exc).__name__
    if isinstance(exc, Watchdog):
        return "UNDOC:timeout"
    table = {
        "InvalidTcCrc16": "crc", "InvalidTmCrc16": "crc", "InvalidCrc": "crc",
        "UnsupportedCfdpVersion": "version", "TlvTypeMissmatch": "tlvtype",
        "InvalidVerifParams": "params",
    }
    if n in table:
        return table[n]
    if n.startswith("Uslp"):
        return "uslp"
    if isinstance(exc, FileNotFoundError):
        return "notfound"
    if isinstance(exc, OverflowError):
        return "overflow"
    if isinstance(exc, ValueError):
        return "value"
    if isinstance(exc, TypeError):
        return "type"
    if isinstance(exc, _struct.error):
        return "UNDOC:struct.error"
    return "UNDOC:" + n


def outcome(fn, *args):
    """Run a library-calling closure; return its abstract result or {"exc": family}."""
    try:
        return guarded(fn, *args)
    except MachineryError:
        raise
    except BaseException as e:  # noqa
        if isinstance(e, (KeyboardInterrupt, SystemExit)):
            raise
        return {"exc": family(e)}


def octs(b):
    return list(bytes(b))


def after_pack(raw, fn):
    """Run the post-pack part of a round-trip adapter. If it raises, the outcome records that octets HAD been emitted -
    so that 'packing must fail' expectations are not satisfied by a later decode error."""
    try:
        return fn()
    except MachineryError:
        raise
    except BaseException as e:  # noqa
        if isinstance(e, (KeyboardInterrupt, SystemExit)):
            raise
        return {"exc": family(e), "late": 1, "octets": octs(raw)}


_INJ = []


def decoded(fn):
    """The decoded object an unpack adapter projects: normally fn() (the real decode call); when the repository's own tests
    are traced (vp/repotrace.py) the object their call returned is injected instead, so the adapter's projection is applied
    to exactly what the test saw."""
    if _INJ:
        return _INJ.pop()
    return fn()


def enum_arg(cls, v, *key):
    """An enumerated argument as a caller may write it: the enum member, or its plain integer / boolean value (the enums are
    IntEnums: `1 == CrcFlag.WITH_CRC`, and the library accepts either).  Which spelling is used is a deterministic function
    of the surrounding arguments, so every grid and every random run exercises all of them."""
    import zlib
    k = zlib.crc32(repr((cls.__name__, v) + key).encode()) % 4
    if k == 1:
        return int(v)
    if k == 2 and v in (0, 1):
        return bool(v)
    return cls(v)


def _classify(classify, e):
    """input class for the fingerprint; a classifier written for one operation must not break the verdict for another"""
    if not classify:
        return ""
    if e.get("op") == "obs.pack":
        return "after-reuse,cls=" + str(e.get("a", {}).get("cls"))
    try:
        return classify(e)
    except Exception:  # noqa
        return "?"


SIDE = []
CURRENT = []


def side_event(op, a, o):
    """A further recorded call observed inside an adapter (validated by TLC like every recorded call): used for the universal
    law 'pack() is the specification's encoding of what the object's own getters report', observed after the caller went on
    using ITS objects (configuration records, headers) for something else."""
    SIDE.append({"op": op, "a": a, "o": o, "origin": {"op": CURRENT[0], "a": CURRENT[1]} if CURRENT else None})


def side_pack(label, proj, obj):
    """Record the obs.pack side event for obj (never raises)."""
    try:
        v = proj(obj)
    except Exception:  # noqa
        return
    try:
        o = {"octets": octs(obj.pack())}
    except Exception as e:  # noqa
        o = {"exc": family(e)}
    side_event("obs.pack", {"cls": label, "v": v}, o)


def assign_grown(obj, attr, data):
    """Assign `data` to obj.attr the way an application that owns one growing buffer does it: a bytearray holding the first
    part is assigned, the SAME object is then extended in place to the full content and assigned again (so that lengths
    follow).  For data of even length the plain assignment of a bytes object is used.  Either way the attribute ends up
    holding exactly `data`."""
    data = bytes(data)
    if len(data) % 2 == 0 or len(data) < 1:
        setattr(obj, attr, data)
        return
    buf = bytearray(data[:len(data) // 2])
    setattr(obj, attr, buf)
    buf.extend(data[len(data) // 2:])
    setattr(obj, attr, buf)


def owned(packfn):
    """pack() of the object under test, with the caller doing what callers do with the returned buffer: it is extended and
    overwritten in place (e.g. to append a payload), then the object is packed again.  The second result is returned; it is
    the first one unless the object handed out a buffer it still uses itself."""
    try:
        first = packfn()
    except Exception:
        # a refusal must be repeatable: the same call on the unchanged object is refused again (not "already checked")
        try:
            again = packfn()
        except Exception:
            raise
        return bytearray(b"\xee\xee refused once, then packed: " + bytes(again))
    keep = bytes(first)
    if isinstance(first, bytearray):
        first.extend(b"\xa5\x5a\xa5")
        for i in range(min(len(keep), 16)):
            first[i] ^= 0xFF
    second = packfn()
    if bytes(second) != keep:
        return bytearray(b"\xee" + bytes(second))       # differs from the expectation: the mismatch names the octets
    # retention: what pack() returned belongs to the caller for good - results are kept for the next 700 pack() calls of
    # the process (a transmit queue) and must still hold what they held (no pool of output buffers that comes round again)
    _KEPT.append((second, keep))
    if len(_KEPT) > 700:
        old, was = _KEPT.popleft()
        if bytes(old) != was:
            _KEPT.clear()
            return bytearray(b"\xee\xee a buffer returned ~700 pack() calls ago was overwritten: " + bytes(old)[:40])
    return second


import collections as _collections
_KEPT = _collections.deque()


_ASCII_DELTA = {}


def crc32_ascii_delta(n=10):
    """A non-zero string of n octets, every octet below 0x20 (so XOR-ing it onto lower-case ASCII text gives ASCII text again),
    whose XOR onto any n-octet window leaves the CRC-32 (and every other CRC with that polynomial) of the whole unchanged.
    Found by Gaussian elimination over GF(2): CRC is affine, so the set of such strings is a linear space."""
    import zlib
    if n in _ASCII_DELTA:
        return _ASCII_DELTA[n]
    zero = zlib.crc32(bytes(n))
    basis = []                               # (value image, combination as int over the free bits)
    free = [(i, b) for i in range(n) for b in range(5)]
    res = None
    for j, (i, b) in enumerate(free):
        v = bytearray(n)
        v[i] = 1 << b
        img, comb = zlib.crc32(bytes(v)) ^ zero, 1 << j
        for bi, bc in basis:
            if img ^ bi < img:
                img, comb = img ^ bi, comb ^ bc
        if img == 0:
            res = comb
            break
        basis.append((img, comb))
        basis.sort(reverse=True)
    if res is None:
        _ASCII_DELTA[n] = None
        return None
    d = bytearray(n)
    for j, (i, b) in enumerate(free):
        if (res >> j) & 1:
            d[i] |= 1 << b
    _ASCII_DELTA[n] = bytes(d)
    return bytes(d)


def crc32_text_twin(text):
    """Another ASCII string of the same length with the same CRC-32 as `text` (lower-case letters / digits / punctuation from
    0x60..0x7E in the changed window), or None."""
    import zlib
    b = text.encode() if isinstance(text, str) else bytes(text)
    d = crc32_ascii_delta(10)
    if d is None or len(b) < len(d):
        return None
    out = bytearray(b)
    for i, x in enumerate(d):
        out[i] ^= x
    if zlib.crc32(bytes(out)) != zlib.crc32(b) or bytes(out) == b or any(c >= 0x80 for c in out):
        return None
    return bytes(out)


_CONSTS = {}


def source_constants():
    """Octet strings that occur as literals in the SOURCE of the tree under test (bytes and short str literals as they are;
    integer literals of two or more octets in big- and little-endian form), de-duplicated.  A decoder that treats some
    particular octet pattern specially (a marker it skips, a value it short-cuts) names that pattern in its source; inputs
    that begin with each such pattern are then decoded like any others and judged by the specification."""
    import ast
    repo = os.path.abspath(os.environ.get("VERIF_REPO", "/repo"))
    if repo in _CONSTS:
        return _CONSTS[repo]
    out = set()
    for root, _dirs, files in os.walk(os.path.join(repo, "spacepackets")):
        for fn in files:
            if not fn.endswith(".py"):
                continue
            try:
                tree = ast.parse(open(os.path.join(root, fn), encoding="utf-8").read())
            except Exception:  # noqa
                continue
            for node in ast.walk(tree):
                if isinstance(node, ast.Constant):
                    v = node.value
                    if isinstance(v, bytes) and 1 <= len(v) <= 16:
                        out.add(v)
                    elif isinstance(v, str) and 2 <= len(v) <= 8 and v.isascii() and v.isalnum():
                        out.add(v.encode())
                    elif isinstance(v, int) and not isinstance(v, bool) and 0xFF < v < (1 << 64):
                        n = (v.bit_length() + 7) // 8
                        out.add(v.to_bytes(n, "big"))
                        out.add(v.to_bytes(n, "little"))
                elif isinstance(node, (ast.List, ast.Tuple)) and 2 <= len(node.elts) <= 16 and \
                        all(isinstance(e, ast.Constant) and isinstance(e.value, int) and not isinstance(e.value, bool)
                            and 0 <= e.value <= 255 for e in node.elts):
                    out.add(bytes(e.value for e in node.elts))
    res = sorted(out)
    _CONSTS[repo] = res
    return res


def crc32_twin(data):
    """Another octet string of the same length with the same CRC-32 (five adjacent octets XORed with a multiple of the CRC-32
    polynomial), or None if data is shorter than five octets.  Used as the EARLIER content of an object: a 'did it change?'
    shortcut built on a checksum of the content must not mistake the two for each other."""
    data = bytes(data)
    if len(data) < 5:
        return None
    import zlib
    pat = bytes([0x41, 0x06, 0x71, 0xDB, 0x01])
    at = len(data) // 2 - 2 if len(data) > 5 else 0
    out = bytearray(data)
    for i in range(5):
        out[at + i] ^= pat[i]
    if zlib.crc32(bytes(out)) != zlib.crc32(data):
        # bit order of the pattern: try its bit-reversed form
        out = bytearray(data)
        rp = bytes(int(f"{b:08b}"[::-1], 2) for b in pat)
        for i in range(5):
            out[at + i] ^= rp[i]
        if zlib.crc32(bytes(out)) != zlib.crc32(data):
            return None
    return bytes(out)


_LIVE = []
_FLIP = bytes(i ^ 0xFF for i in range(256))


def live(buf):
    """Remember a mutable receive buffer handed to a decoder; scramble() later overwrites it in place."""
    if isinstance(buf, bytearray):
        _LIVE.append(buf)
    return buf


def scramble():
    """The receiver re-uses its buffer: every mutable buffer handed to a decoder since the last call is overwritten in place
    (same length).  A decoded object must own its contents - with a bytearray every slice the decoder takes is a copy, so this
    changes nothing unless the decoder kept a view of the caller's buffer."""
    for b in _LIVE:
        b[:] = bytes(b).translate(_FLIP)
    del _LIVE[:]


def rxbuf(raw, sfx=()):
    """The buffer handed to a decoder: bytes, bytearray (receive buffers, e.g. what the stream parser returns, are
    bytearrays) or a read-only memoryview (a window into a larger buffer), chosen deterministically from the content so that
    all three are exercised on every grid. Bytearrays are remembered for scramble()."""
    b = bytes(raw) + bytes(sfx)
    k = (len(b) + (b[-1] if b else 0)) % 3
    if k == 1:
        return live(bytearray(b))
    if k == 2:
        return memoryview(b)
    return b


