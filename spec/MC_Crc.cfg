SPECIFICATION Spec
CHECK_DEADLOCK FALSE
INVARIANT Inv_BurstDetected
INVARIANT Inv_Linear
