---------------------------- MODULE MC_Lifecycle ----------------------------
(***************************************************************************)
(* Exhaustive exploration of the lifecycle machine of one packet class:    *)
(* all setter / pack / reload sequences over the class's bounded argument  *)
(* sets (the reachable graph is finite, so sequences of every length are   *)
(* covered).  Every transition is emitted with the observations a correct  *)
(* object must show after it, for replay on the real class.                *)
(***************************************************************************)
EXTENDS Lifecycle, Json

CONSTANT Kind

VARIABLES o, ev

Init == /\ \E c \in LcCfgs(Kind), v \in LcInitVals(Kind) : o = LcNorm(Kind, LcCreate(Kind, c, v))
        /\ ev = [a |-> "create"]

Step(e) == LcEnabled(Kind, o, e) /\ o' = LcNorm(Kind, LcApply(Kind, o, e)) /\ ev' = e
Set == \E f \in LcFields(Kind) : \E x \in LcSetArgs(Kind, f) : Step([a |-> "set", f |-> f, x |-> x])
Flag == \E x \in LcFlagArgs(Kind) : Step([a |-> "flag", x |-> x])
FrameLen == Kind = "uslp" /\ Step([a |-> "framelen"])
Pack == Step([a |-> "pack"])
Reload == Step([a |-> "reload"])

Next == Set \/ Flag \/ FrameLen \/ Pack \/ Reload
Spec == Init /\ [][Next]_<<o, ev>>
View == o

Inv_LenTracks == LcLenTracks(Kind, o)
Inv_Fresh == LcFresh(Kind, o)
Inv_ReloadStable == LcReloadStable(Kind, o)
Act_PackPure == [][ev'.a = "pack" => o' = o]_<<o, ev>>
\* a setter changes only the field it names (and the kept length)
Act_SetLocal == [][ev'.a = "set" => (o'.cfg = o.cfg /\ \A f \in DOMAIN o.val : f # ev'.f => o'.val[f] = o.val[f])]_<<o, ev>>

Emit == PrintT("EMIT " \o ToJson([src |-> o, ev |-> ev', dst |-> o', obs |-> LcObs(Kind, o')]))
EmitInit == (TLCGet("level") = 1) => PrintT("META " \o ToJson([init |-> o, obs |-> LcObs(Kind, o)]))
=============================================================================
