------------------------------ MODULE Lifecycle ------------------------------
(***************************************************************************)
(* Mutable packet objects (C11): construction followed by any sequence of  *)
(* the documented setters, pack, and reload (= unpack(pack())).            *)
(*                                                                         *)
(* One object at a time:  o = [cfg, val, cached]                           *)
(*   val    the final field values in the vocabulary of the codec modules  *)
(*   cached the length the object keeps and writes into its length field   *)
(*          (PUS: packet data length; CFDP: PDU data field length; USLP:   *)
(*          frame length field, which is only refreshed by the explicit    *)
(*          update call).  Each setter recomputes it from the PARTS of the *)
(*          format (LenParts) - as an implementation does - and            *)
(*          Inv_LenTracks states that this always equals what the encoder  *)
(*          (written independently in the codec modules) really produces.  *)
(*                                                                         *)
(* An event is [a |-> "set", f |-> field, x |-> value] | [a |-> "flag", x] *)
(* | [a |-> "framelen"] | [a |-> "pack"] | [a |-> "reload"].               *)
(***************************************************************************)
EXTENDS Pus, Cfdp, Uslp

LcKinds == {"tc", "tm", "eof", "finished", "metadata", "nak", "filedata", "keepalive", "uslp"}
LcIsPdu(kind) == kind \in {"eof", "finished", "metadata", "nak", "filedata", "keepalive"}

SumLens(s, F(_)) == FoldLeft(LAMBDA acc, x : acc + F(x), 0, s)
RespLen(r) == 2 + 1 + (1 + Len(r.n1)) + (IF TwoNames(r.action) THEN 1 + Len(r.n2) ELSE 0) + (1 + Len(r.msg))
OptTlvLen(t) == 2 + Len(t.v)
EntityLen(f) == IF Has(f) THEN 2 + Len(Get(f)) ELSE 0

\* the length written into the length field, from the parts of the format
LenParts(kind, cfg, v) ==
  CASE kind = "tc" -> TcSecLen + Len(v.data) + 1
    [] kind = "tm" -> TmSecMin + Len(v.stamp) + Len(v.data) + 1
    [] kind = "eof" -> 1 + 1 + 4 + FssW(cfg.large) + EntityLen(v.fault) + 2 * cfg.crc
    [] kind = "finished" -> 1 + 1 + SumLens(v.responses, RespLen) + (IF FinFaultPacked(v) THEN EntityLen(v.fault) ELSE 0) + 2 * cfg.crc
    [] kind = "metadata" -> 1 + 1 + FssW(cfg.large) + (1 + Len(v.srcname)) + (1 + Len(v.dstname))
                            + SumLens(v.options, OptTlvLen) + 2 * cfg.crc
    [] kind = "nak" -> 1 + 2 * FssW(cfg.large) * (1 + Len(v.segs)) + 2 * cfg.crc
    [] kind = "filedata" -> (IF Has(v.meta) THEN 1 + Len(Get(v.meta).md) ELSE 0) + FssW(cfg.large) + Len(v.data) + 2 * cfg.crc
    [] kind = "keepalive" -> 1 + FssW(cfg.large) + 2 * cfg.crc
    [] kind = "uslp" -> FrameLenOf(v) - 1

\* what a correct object packs (uslp: with the frame length field as kept)
LcEnc(kind, o) ==
  CASE kind = "tc" -> TcEnc(TcOf(o.val))
    [] kind = "tm" -> TmEnc(TmOf(o.val))
    [] kind = "uslp" -> UslpHdrEnc([o.val.hdr EXCEPT !.flen = o.cached, !.ocf = IF Has(o.val.ocf) THEN 1 ELSE 0]) \o FrameBody(o.val)
    [] OTHER -> PduEnc(kind, o.cfg, o.val)

LcCreate(kind, cfg, v) == [cfg |-> cfg, val |-> v, cached |-> IF kind = "uslp" THEN v.hdr.flen ELSE LenParts(kind, cfg, v)]

\* reported total length
LcLen(kind, o) == CASE kind \in {"tc", "tm"} -> o.cached + 7
                    [] kind = "uslp" -> FrameLenOf(o.val)
                    [] OTHER -> CfgHdrLen(o.cfg) + o.cached

LcObs(kind, o) == [octets |-> LcEnc(kind, o), plen |-> LcLen(kind, o), cached |-> o.cached]

UslpFresh(o) == o.val.hdr.trunc = 1 \/ o.cached = FrameLenOf(o.val) - 1

\* state after unpack(pack(o)): values as decoded, length as found in the octets
LcReload(kind, o) ==
  LET w == LcEnc(kind, o) IN
  CASE kind = "tc" -> LET d == TcDec(w).v IN
                      [o EXCEPT !.val = [apid |-> d.h.apid, seq |-> d.h.count, ack |-> d.ack, service |-> d.service,
                                         subservice |-> d.subservice, source |-> d.source, data |-> d.data],
                                !.cached = d.h.dlen]
    [] kind = "tm" -> LET d == TmDec(w, Len(o.val.stamp)).v IN
                      [o EXCEPT !.val = [ver |-> d.h.ver, apid |-> d.h.apid, seq |-> d.h.count, service |-> d.service,
                                         subservice |-> d.subservice, msgcnt |-> d.msgcnt, dest |-> d.dest, timeref |-> d.timeref,
                                         stamp |-> d.stamp, data |-> d.data],
                                !.cached = d.h.dlen]
    [] kind = "uslp" -> LET d == FrameDec(w, MatchingParams(o.val, IF FpRule(o.val.rule) THEN "fixed" ELSE "var")).v IN
                        [o EXCEPT !.val = d, !.cached = d.hdr.flen]
    [] OTHER -> LET d == PduDec(w, kind) IN [cfg |-> d.v.cfg, val |-> d.v.p, cached |-> w[2] * 256 + w[3]]

LcApply(kind, o, ev) ==
  CASE ev.a = "set" ->
         LET v2 == [o.val EXCEPT ![ev.f] = ev.x] IN
         [o EXCEPT !.val = v2, !.cached = IF kind = "uslp" THEN o.cached ELSE LenParts(kind, o.cfg, v2)]
    [] ev.a = "flag" ->
         LET c2 == [o.cfg EXCEPT !.large = ev.x] IN
         [o EXCEPT !.cfg = c2, !.cached = LenParts(kind, c2, o.val)]
    [] ev.a = "framelen" -> IF o.val.hdr.trunc = 1 THEN o ELSE [o EXCEPT !.cached = FrameLenOf(o.val) - 1]   \* a truncated header has no length field
    [] ev.a = "pack" -> o
    [] ev.a = "reload" -> LcReload(kind, o)

\* may this event be applied (what the API / the standard allows)
LcEnabled(kind, o, ev) ==
  CASE ev.a = "flag" -> kind \in {"nak", "keepalive"}
    [] ev.a = "framelen" -> kind = "uslp"
    [] ev.a = "reload" -> IF kind = "uslp" THEN UslpFresh(o) ELSE TRUE
    [] OTHER -> TRUE

(***************************************************************************)
(* Properties                                                              *)
(***************************************************************************)
\* the kept length equals what the encoder really produces
LcLenTracks(kind, o) ==
  LET w == LcEnc(kind, o) IN
  CASE kind \in {"tc", "tm"} -> o.cached = Len(w) - 7 /\ w[5] * 256 + w[6] = o.cached
    [] kind = "uslp" -> LcLen(kind, o) = Len(w) /\ ((o.val.hdr.trunc = 0 /\ UslpFresh(o)) => w[5] * 256 + w[6] = Len(w) - 1)
    [] OTHER -> o.cached = Len(w) - CfgHdrLen(o.cfg) /\ w[2] * 256 + w[3] = o.cached /\ LcLen(kind, o) = Len(w)
\* the octets are those of a freshly constructed object with the same final values
LcFresh(kind, o) == (kind # "uslp" \/ UslpFresh(o)) =>
                       LcEnc(kind, LcCreate(kind, o.cfg, IF kind = "uslp" THEN [o.val EXCEPT !.hdr.flen = o.cached] ELSE o.val)) = LcEnc(kind, o)
\* reload is the identity up to normalisation of what is not transmitted
LcReloadStable(kind, o) == (kind # "uslp" \/ UslpFresh(o)) =>
                             (LcEnc(kind, LcReload(kind, o)) = LcEnc(kind, o) /\ LcReload(kind, LcReload(kind, o)) = LcReload(kind, o))

(***************************************************************************)
(* Bounded instances                                                       *)
(***************************************************************************)
LcCfgs(kind) == IF LcIsPdu(kind) THEN {CfgOf(c, l, 1, 2, 0, DirOf(kind, [acked |-> 4])) : c \in 0..1, l \in 0..1}
                                      \cup {[CfgOf(1, 1, 8, 4, 1, DirOf(kind, [acked |-> 4])) EXCEPT !.src = IdFF(8)]}
                ELSE {[none |-> 0]}
LcResp(i) == CASE i = 0 -> [action |-> 0, status |-> 1, n1 |-> <<97>>, n2 |-> <<>>, msg |-> <<>>]
               [] i = 2 -> [action |-> 2, status |-> 0, n1 |-> <<97, 46, 116>>, n2 |-> <<195, 164>>, msg |-> <<111, 107>>]
               [] i = 5 -> [action |-> 5, status |-> 15, n1 |-> <<>>, n2 |-> <<>>, msg |-> <<33>>]
\* (<<1>> and <<0, 0, 0, 1>> are the same entity NUMBER in two widths: the library's entity-ID TLVs compare by number)
LcFaults == {<<>>, << <<1>> >>, << <<1, 2, 3, 4>> >>, << <<0, 0, 0, 1>> >>}
LcData == {<<>>, <<1>>, <<6, 1, 5, 0, 0>>}

LcInitVals(kind) ==
  CASE kind = "tc" -> {[apid |-> 66, seq |-> 22, ack |-> 15, service |-> 17, subservice |-> 1, source |-> 258, data |-> d] : d \in {<<>>, <<9, 9>>}}
    [] kind = "tm" -> {[ver |-> 0, apid |-> 66, seq |-> 22, service |-> 17, subservice |-> 2, msgcnt |-> 5, dest |-> 772, timeref |-> 3,
                        stamp |-> s, data |-> <<>>] : s \in {<<>>, <<64, 0, 1, 0, 0, 0, 9>>}}
    [] kind = "eof" -> {[cond |-> 4, checksum |-> <<1, 2, 3, 4>>, size |-> <<1, 0>>, fault |-> f] : f \in {<<>>, << <<7, 7>> >>}}
    [] kind = "finished" -> {[cond |-> c, delivery |-> 1, status |-> 1, responses |-> <<>>, fault |-> <<>>] : c \in {0, 4}}
    [] kind = "metadata" -> {[closure |-> 1, cktype |-> 3, size |-> <<2, 0>>, srcname |-> <<115>>, dstname |-> <<100>>, options |-> <<>>]}
    [] kind = "nak" -> {[start |-> Zeros(FssW(0)), end |-> <<0, 0, 2, 128>>, segs |-> <<>>]}
    [] kind = "filedata" -> {[offset |-> <<0, 0, 1, 0>>, data |-> <<1, 2>>, meta |-> <<>>]}
    [] kind = "keepalive" -> {[progress |-> <<1, 2, 3, 4>>]}
    [] kind = "uslp" -> {[FrameSampleFixed EXCEPT !.hdr.flen = 0], [FrameSampleVar EXCEPT !.hdr.flen = 77, !.ocf = <<>>],
                         [FrameSampleTrunc EXCEPT !.fecf = <<>>]}

\* note: file-size-sensitive values are kept below 2^32 here so that both widths can carry them;
\* they are stored at the width of the moment they are read back (reload)
LcFields(kind) ==
  CASE kind = "tc" -> {"data", "apid", "seq"}
    [] kind = "tm" -> {"data", "apid"}
    [] kind = "eof" -> {"fault"}
    [] kind = "finished" -> {"fault", "responses"}
    [] kind = "metadata" -> {"options", "srcname", "dstname"}
    [] kind = "nak" -> {"segs"}
    [] kind = "filedata" -> {"data", "meta"}
    [] kind = "keepalive" -> {}
    [] kind = "uslp" -> {"tfdz"}
LcSetArgs(kind, f) ==
  CASE f \in {"data", "tfdz"} -> LcData
    [] f = "apid" -> {0, 2047}
    [] f = "seq" -> {1, 16383}
    [] f = "fault" -> LcFaults
    [] f = "responses" -> {<<>>, <<LcResp(0)>>, <<LcResp(2), LcResp(5)>>}
    [] f = "options" -> {<<>>, <<[t |-> 2, v |-> <<104, 105>>]>>, <<[t |-> 0, v |-> <<16, 1, 97>>], [t |-> 5, v |-> <<>>]>>}
    [] f = "srcname" -> {<<>>, <<97>>, <<195, 164, 46, 116, 120, 116>>}
    [] f = "dstname" -> {<<>>, <<98, 99>>}
    [] f = "segs" -> {<<>>, << <<<<0, 0, 0, 0>>, <<0, 0, 0, 128>>>> >>,
                      << <<<<0, 0, 0, 0>>, <<0, 0, 0, 128>>>>, <<<<0, 0, 2, 0>>, <<0, 0, 2, 128>>>> >>}
    [] f = "meta" -> {<<>>, <<[state |-> 0, md |-> <<>>]>>, <<[state |-> 3, md |-> <<9, 9>>]>>}
LcFlagArgs(kind) == IF kind \in {"nak", "keepalive"} THEN 0..1 ELSE {}

\* FSS values of NAK / keep alive are re-read at the current width after a flag change or reload:
\* equality of states is up to leading zero octets, so values are normalised to the current width
LcNorm(kind, o) ==
  CASE kind = "nak" -> [o EXCEPT !.val = NormP("nak", o.val, o.cfg.large)]
    [] kind = "keepalive" -> [o EXCEPT !.val = NormP("keepalive", o.val, o.cfg.large)]
    [] kind = "eof" -> [o EXCEPT !.val = NormP("eof", o.val, o.cfg.large)]
    [] kind = "metadata" -> [o EXCEPT !.val = NormP("metadata", o.val, o.cfg.large)]
    [] kind = "filedata" -> [o EXCEPT !.val = NormP("filedata", o.val, o.cfg.large)]
    [] OTHER -> o
=============================================================================
