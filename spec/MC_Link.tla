------------------------------ MODULE MC_Link ------------------------------
EXTENDS Link, Json

ScriptsQuick == << << <<1, 0>>, <<3, 0>>, <<7, 0>> >>, << <<1, 0>>, <<5, 1>>, <<8, 0>> >> >>
ScriptsThorough == << << <<1, 0>>, <<3, 0>>, <<5, 1>>, <<7, 0>> >>, << <<2, 0>> >>, << <<1, 0>>, <<3, 0>>, <<6, 1>> >> >>

Proj(c, s, up1, up2, b, t, d1, d2, tb) ==
  [sent |-> s, upP |-> up1, upQ |-> up2, brx |-> b, todo |-> t, dnP |-> d1, dnQ |-> d2, tab |-> [i \in 1..Cardinality(TCs) |-> tb[i]]]
Emit == PrintT("EMIT " \o ToJson([src |-> Proj(cnt, sent, upP, upQ, brx, todo, dnP, dnQ, tab), ev |-> ev',
                                  dst |-> Proj(cnt', sent', upP', upQ', brx', todo', dnP', dnQ', tab')]))
Meta == PrintT("META " \o ToJson([scripts |-> Scripts]))
ASSUME Meta
\* keep the two directions from running arbitrarily far apart (model bound only)
Bound == Len(upP) + Len(Concat(upQ)) <= 30 /\ Len(dnP) + Len(Concat(dnQ)) <= 48
=============================================================================
