------------------------------ MODULE SpParser ------------------------------
(***************************************************************************)
(* The space-packet stream parser (parse_space_packets): a caller-owned    *)
(* queue of chunks is appended to on the right by the caller (Feed) and    *)
(* analysed by the parser (Parse), which returns every complete packet     *)
(* with a registered packet ID and must leave the not-yet-complete tail    *)
(* in the queue.  One action per public call.                              *)
(*                                                                         *)
(* Streams is a sequence of test streams [stream, packets, ids, clean];    *)
(* clean = TRUE iff the stream is a pure concatenation of its packets.     *)
(***************************************************************************)
EXTENDS SpacePacket

CONSTANTS Streams, MaxChunks

VARIABLES sid,        \* which stream is being transmitted
          fed,        \* number of octets of the stream appended so far
          queue,      \* the analysis queue: sequence of chunks
          delivered,  \* packets returned so far, in order
          last,       \* name of the last action
          ev          \* the last call with its result (observation only; hidden by the VIEW)

vars == <<sid, fed, queue, delivered, last, ev>>
View == <<sid, fed, queue, delivered, last>>

ParseResult(q, ids) == Scan(Concat(q), 1, <<>>, ids)

S == Streams[sid]

Init == /\ sid \in DOMAIN Streams
        /\ fed = 0 /\ queue = <<>> /\ delivered = <<>> /\ last = "init"
        /\ ev = [a |-> "init"]

Feed(k) == /\ fed + k <= Len(S.stream)
           /\ Len(queue) < MaxChunks
           /\ queue' = Append(queue, SubSeq(S.stream, fed + 1, fed + k))
           /\ fed' = fed + k
           /\ last' = "feed"
           /\ ev' = [a |-> "feed", k |-> k]
           /\ UNCHANGED <<sid, delivered>>

Parse == LET r == ParseResult(queue, S.ids)
         IN /\ delivered' = delivered \o r.out
            /\ queue' = IF r.rest = <<>> THEN <<>> ELSE <<r.rest>>
            /\ last' = "parse"
            /\ ev' = [a |-> "parse", out |-> r.out]
            /\ UNCHANGED <<sid, fed>>

FeedAny == \E k \in 1..(Len(S.stream) - fed) : Feed(k)

Next == FeedAny \/ Parse

Spec == Init /\ [][Next]_vars

(***************************************************************************)
(* Properties (C13)                                                        *)
(***************************************************************************)
\* packets come out exactly once, complete, byte-identical, in stream order
Inv_Prefix == IsPrefix(delivered, S.packets)
\* the queue holds exactly the fed octets from the first undelivered packet on
Inv_Tail == S.clean => Concat(queue) = SubSeq(S.stream, Len(Concat(delivered)) + 1, fed)
\* nothing is lost: once everything is fed, a parser call finishes the job
Inv_Done == (fed = Len(S.stream) /\ last = "parse") =>
               /\ delivered = S.packets
               /\ (S.clean => queue = <<>>)
\* every packet whose last octet has been fed is delivered by the next call
Inv_Prompt == last = "parse" =>
               \A i \in DOMAIN S.packets :
                  (S.clean /\ Len(Concat(SubSeq(S.packets, 1, i))) <= fed) => Len(delivered) >= i
Act_ExactlyOnce == [][IsPrefix(delivered, delivered')]_vars
=============================================================================
