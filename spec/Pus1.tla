-------------------------------- MODULE Pus1 --------------------------------
(***************************************************************************)
(* ECSS-E-ST-70-41C 6.1 / 8.1: request identifier and the service-1        *)
(* (request verification) reports, plus the enumerated packet field used   *)
(* for step IDs and failure codes.                                         *)
(*                                                                         *)
(* Request ID  = first four octets of the telecommand's primary header:    *)
(*               version (3) | packet ID (13) | sequence control (16)      *)
(* Report source data = request ID                                         *)
(*                      [ step ID (stepW octets) ]     subservices 5, 6    *)
(*                      [ failure code (errW octets) | failure data ]      *)
(*                                                      subservices 2,4,6,8 *)
(*                                                                         *)
(* Abstract request ID: [ver, type, shf, apid, flags, count]               *)
(* Abstract report    : [apid, seq, ver, timeref, dest, stamp, sub, req,   *)
(*                       step, fail]  with step = <<>> or <<[w, v]>> and   *)
(*                       fail = <<>> or <<[w, code, data]>> (v, code are   *)
(*                       octet strings of exactly w octets)                *)
(***************************************************************************)
EXTENDS Pus

ReqHdr(r) == [ver |-> r.ver, type |-> r.type, shf |-> r.shf, apid |-> r.apid, flags |-> r.flags,
              count |-> r.count, dlen |-> 0]
ReqIdEnc(r) == Take(SpHdrEnc(ReqHdr(r)), 4)
ReqIdDec(b) == LET h == SpHdrDec(Take(b, 4) \o <<0, 0>>)
               IN [ver |-> h.ver, type |-> h.type, shf |-> h.shf, apid |-> h.apid, flags |-> h.flags, count |-> h.count]
ReqOfHdr(h) == [ver |-> h.ver, type |-> h.type, shf |-> h.shf, apid |-> h.apid, flags |-> h.flags, count |-> h.count]
\* the request ID of a telecommand is read from its packed octets
ReqOfTc(p) == ReqIdDec(Take(TcEnc(TcOf(p)), 4))

EnumWidthOk(w) == w \in {1, 2, 4, 8}

Srv1StepOk(sub, step) == (sub \in {5, 6}) <=> Has(step)
Srv1FailOk(sub, fail) == (sub % 2 = 0) <=> Has(fail)
Srv1ParamsOk(sub, step, fail) == Srv1StepOk(sub, step) /\ Srv1FailOk(sub, fail)

Srv1SrcData(req, step, fail) ==
  ReqIdEnc(req)
  \o (IF Has(step) THEN Get(step).v ELSE <<>>)
  \o (IF Has(fail) THEN Get(fail).code \o Get(fail).data ELSE <<>>)

Srv1TmParams(p, req) == [ver |-> p.ver, apid |-> p.apid, seq |-> p.seq, service |-> 1, subservice |-> p.sub,
                         msgcnt |-> 0, dest |-> p.dest, timeref |-> p.timeref, stamp |-> p.stamp,
                         data |-> Srv1SrcData(req, p.step, p.fail)]

\* total decoder of a raw service-1 report
Srv1Dec(b, tsLen, stepW, errW) ==
  LET d == TmDec(b, tsLen) IN
  IF ~d.ok THEN Rej(PusRejFams) ELSE
  LET src == d.v.data
      sub == d.v.subservice
  IN IF Len(src) < 4 THEN Rej(<<"value">>)
     ELSE LET req == ReqIdDec(src) IN
       CASE sub \in {1, 3, 7} -> Acc([tm |-> d.v, req |-> req, step |-> <<>>, fail |-> <<>>], d.n)
         [] sub = 5 -> IF Len(src) < 4 + stepW THEN Rej(<<"value">>)
                       ELSE Acc([tm |-> d.v, req |-> req, step |-> <<[w |-> stepW, v |-> SubSeq(src, 5, 4 + stepW)]>>,
                                 fail |-> <<>>], d.n)
         [] sub \in {2, 4, 8} -> IF Len(src) < 4 + errW THEN Rej(<<"value">>)
                       ELSE Acc([tm |-> d.v, req |-> req, step |-> <<>>,
                                 fail |-> <<[w |-> errW, code |-> SubSeq(src, 5, 4 + errW), data |-> Drop(src, 4 + errW)]>>], d.n)
         [] sub = 6 -> IF Len(src) < 4 + stepW + errW THEN Rej(<<"value">>)
                       ELSE Acc([tm |-> d.v, req |-> req, step |-> <<[w |-> stepW, v |-> SubSeq(src, 5, 4 + stepW)]>>,
                                 fail |-> <<[w |-> errW, code |-> SubSeq(src, 5 + stepW, 4 + stepW + errW),
                                             data |-> Drop(src, 4 + stepW + errW)]>>], d.n)
         [] OTHER -> Rej(<<"value">>)

(***************************************************************************)
(* Expected observations                                                   *)
(***************************************************************************)
Pus1Ops == {"reqid.rt", "reqid.unpack", "reqid.eq", "srv1.rt", "srv1.unpack", "pfe.rt", "pfe.unpack", "fn.unpack"}

Srv1WOf(o, dflt) == IF Has(o) THEN Get(o).w ELSE dflt

Pus1Exp(op, a) ==
  CASE op = "reqid.rt" ->
         LET w == ReqIdEnc(a.r) IN
         [octets |-> w, u32 |-> w, dec |-> a.r, du32 |-> w, eq |-> TRUE, hashok |-> TRUE, repack |-> w]
    [] op = "reqid.unpack" ->
         IF Len(a.octets) < 4 THEN ExpRej(<<"value">>)
         ELSE [r |-> ReqIdDec(a.octets), repack |-> Take(a.octets, 4), u32 |-> Take(a.octets, 4)]
    [] op = "reqid.eq" ->
         [eq |-> ReqIdEnc(a.r1) = ReqIdEnc(a.r2), hashok |-> TRUE]
    [] op = "srv1.rt" ->
         IF ~Srv1ParamsOk(a.p.sub, a.p.step, a.p.fail) THEN ExpRej(<<"params">>)
         ELSE LET req == IF Has(a.tc) THEN ReqOfTc(Get(a.tc)) ELSE a.p.req
                  tp  == Srv1TmParams(a.p, req)
                  t   == TmOf(tp)
                  w   == TmEnc(t)
              IN [octets |-> w, plen |-> Len(w), src |-> tp.data, req |-> req, reqoct |-> ReqIdEnc(req),
                  dec |-> [tm |-> t, req |-> req, step |-> a.p.step, fail |-> a.p.fail],
                  eq |-> TRUE, repack |-> w]
    [] op = "srv1.unpack" ->
         LET d == Srv1Dec(a.octets, a.tslen, a.stepw, a.errw)
             x == IF d.ok THEN [v |-> d.v, repack |-> Take(a.octets, d.n)] ELSE ExpRej(d.rej)
             t == TmDec(a.octets, a.tslen)
         IN \* a decoder that insists on service 1 is as good as one that does not look
            IF t.ok /\ t.v.service # 1 /\ d.ok THEN [anyof |-> <<x, ExpRej(<<"value">>)>>] ELSE x
    [] op = "pfe.rt" ->
         IF a.pfc \notin {8, 16, 32, 64} THEN ExpRej(<<"value">>)
         ELSE [octets |-> a.v, len |-> a.pfc \div 8, dec |-> a.v, eq |-> TRUE]
    [] op = "pfe.unpack" ->
         IF a.pfc \notin {8, 16, 32, 64} \/ Len(a.octets) < a.pfc \div 8 THEN ExpRej(<<"value">>)
         ELSE [v |-> Take(a.octets, a.pfc \div 8)]
    [] op = "fn.unpack" ->
         IF ~EnumWidthOk(a.errw) \/ Len(a.octets) < a.errw THEN ExpRej(<<"value">>)
         ELSE [code |-> Take(a.octets, a.errw), data |-> Drop(a.octets, a.errw), len |-> Len(a.octets)]

(***************************************************************************)
(* Laws                                                                    *)
(***************************************************************************)
ReqLaw_RT(r) == ReqIdDec(ReqIdEnc(r)) = r /\ Len(ReqIdEnc(r)) = 4
ReqLaw_HdrPrefix(h) == ReqIdEnc(ReqOfHdr(h)) = Take(SpHdrEnc(h), 4)
ReqLaw_Inj(r1, r2) == (ReqIdEnc(r1) = ReqIdEnc(r2)) <=> (r1 = r2)
Srv1Law_RT(p, req) ==
  LET tp == Srv1TmParams(p, req)
      w  == TmEnc(TmOf(tp))
      d  == Srv1Dec(w, Len(p.stamp), Srv1WOf(p.step, 1), Srv1WOf(p.fail, 1))
  IN /\ d.ok /\ d.n = Len(w)
     /\ d.v = [tm |-> TmOf(tp), req |-> req, step |-> p.step, fail |-> p.fail]
     /\ Take(tp.data, 4) = ReqIdEnc(req)
     /\ Len(tp.data) = 4 + (IF Has(p.step) THEN Get(p.step).w ELSE 0)
                         + (IF Has(p.fail) THEN Get(p.fail).w + Len(Get(p.fail).data) ELSE 0)

(***************************************************************************)
(* Bounded grids                                                           *)
(***************************************************************************)
ReqGrid == [ver : {0, 7}, type : 0..1, shf : 0..1, apid : SpApidGrid, flags : 0..3, count : SpCountGrid]
ReqSample == [ver |-> 0, type |-> 1, shf |-> 1, apid |-> 66, flags |-> 3, count |-> 22]
ReqTcGrid == [ver : {0}, type : {1}, shf : {1}, apid : {0, 66, 2047}, flags : {3}, count : {0, 22, 16383}]

StepGrid == {<<>>, <<[w |-> 1, v |-> <<1>>]>>, <<[w |-> 2, v |-> <<1, 2>>]>>, <<[w |-> 4, v |-> <<255, 0, 0, 1>>]>>,
             <<[w |-> 8, v |-> Rep(8, 255)]>>}
FailGrid == {<<>>, <<[w |-> 1, code |-> <<5>>, data |-> <<>>]>>, <<[w |-> 2, code |-> <<1, 2>>, data |-> <<9>>]>>,
             <<[w |-> 4, code |-> <<128, 0, 0, 0>>, data |-> <<1, 2, 3, 4, 5>>]>>,
             <<[w |-> 8, code |-> <<1, 2, 3, 4, 5, 6, 7, 8>>, data |-> <<0, 0>>]>>}
Srv1Base == [apid |-> 66, seq |-> 22, ver |-> 0, timeref |-> 0, dest |-> 0, stamp |-> <<>>, sub |-> 1, req |-> ReqSample,
             step |-> <<>>, fail |-> <<>>]
Srv1Stamp == <<64, 0, 1, 0, 0, 0, 9>>
Srv1TcSample == [apid |-> 2047, seq |-> 16383, ack |-> 15, service |-> 17, subservice |-> 1, source |-> 0, data |-> <<>>]

Srv1Good(sub) == {sf \in StepGrid \X FailGrid : Srv1ParamsOk(sub, sf[1], sf[2])}

Pus1NParts == 9
Pus1GridPart(i) ==
  CASE i = 1 -> {[op |-> "reqid.rt", a |-> [r |-> r, sfx |-> s, via |-> "ctor"]] : r \in ReqGrid, s \in {<<>>, <<9>>}}
    [] i = 2 -> {[op |-> "reqid.rt", a |-> [r |-> r, sfx |-> <<>>, via |-> v]] : r \in ReqTcGrid, v \in {"sph", "tc", "mutate"}}
                \cup {[op |-> "reqid.rt", a |-> [r |-> r, sfx |-> <<>>, via |-> "mutate"]] :
                        r \in [ver : {0, 7}, type : 0..1, shf : 0..1, apid : {0, 2047}, flags : {0, 3}, count : {0, 16383}]}
                \cup {[op |-> "reqid.unpack", a |-> [octets |-> Take(<<31, 255, 192, 1, 7>>, k)]] : k \in 0..5}
                \cup {[op |-> "reqid.eq", a |-> [r1 |-> ReqSample, r2 |-> r]] :
                        r \in {ReqSample, [ReqSample EXCEPT !.ver = 1], [ReqSample EXCEPT !.type = 0], [ReqSample EXCEPT !.shf = 0],
                               [ReqSample EXCEPT !.apid = 67], [ReqSample EXCEPT !.flags = 2], [ReqSample EXCEPT !.count = 23],
                               [ReqSample EXCEPT !.apid = 1090], [ReqSample EXCEPT !.count = 8214]}}
    \* every subservice x every step / failure option (matching and not) through the constructor
    [] i = 3 -> {[op |-> "srv1.rt", a |-> [p |-> [Srv1Base EXCEPT !.sub = sub, !.step = st, !.fail = f, !.stamp = ts],
                                          tc |-> <<>>, via |-> "ctor", sfx |-> <<>>]] :
                    sub \in 1..8, st \in StepGrid, f \in FailGrid, ts \in {<<>>, Srv1Stamp}}
    \* the create_* helpers for a real telecommand
    [] i = 4 -> {[op |-> "srv1.rt", a |-> [p |-> [Srv1Base EXCEPT !.sub = x[1], !.step = x[2], !.fail = x[3], !.stamp = Srv1Stamp,
                                                              !.seq = 0],
                                          tc |-> <<tc>>, via |-> "create", sfx |-> <<>>]] :
                    x \in {y \in (1..8) \X StepGrid \X FailGrid : Srv1ParamsOk(y[1], y[2], y[3])},
                    tc \in {TcSample, Srv1TcSample}}
    \* header fields of the report itself, via from_tm, with trailing octets
    [] i = 5 -> {[op |-> "srv1.rt", a |-> [p |-> [Srv1Base EXCEPT !.sub = sub, !.step = sf[1], !.fail = sf[2], !.stamp = ts,
                                                              !.apid = ap, !.seq = sq, !.ver = 7, !.timeref = 15, !.dest = 65535,
                                                              !.req = r],
                                          tc |-> <<>>, via |-> v, sfx |-> s]] :
                    sub \in {1, 2, 5, 6, 7, 8}, sf \in UNION {Srv1Good(sb) : sb \in {1, 2, 5, 6, 7, 8}},
                    ts \in {<<>>, Srv1Stamp}, ap \in {0, 2047}, sq \in {16383}, v \in {"ctor", "from_tm"},
                    s \in {<<>>, <<1, 2, 3>>}, r \in {[ReqSample EXCEPT !.ver = 7, !.apid = 2047, !.count = 16383, !.flags = 0]}}
    \* every strict prefix of sample reports, and decodes with widths other than those packed
    [] i = 6 -> {[op |-> "srv1.unpack", a |-> [octets |-> Take(TmEnc(TmOf(Srv1TmParams([Srv1Base EXCEPT !.sub = sub, !.step = sf[1], !.fail = sf[2]], ReqSample))), k),
                                              tslen |-> 0, stepw |-> Srv1WOf(sf[1], 1), errw |-> Srv1WOf(sf[2], 1)]] :
                    sub \in {1, 5, 6, 8}, sf \in {<< <<>>, <<>> >>, << <<[w |-> 1, v |-> <<1>>]>>, <<>> >>} \cup
                                                 {<< <<[w |-> 2, v |-> <<1, 2>>]>>, <<[w |-> 2, code |-> <<1, 2>>, data |-> <<9>>]>> >>,
                                                  << <<>>, <<[w |-> 1, code |-> <<5>>, data |-> <<>>]>> >>},
                    k \in 0..30}
    [] i = 7 -> {[op |-> "srv1.unpack", a |-> [octets |-> TmEnc(TmOf([TmSample EXCEPT !.service = svc, !.subservice = sub, !.stamp = <<>>, !.data = d])),
                                              tslen |-> 0, stepw |-> sw, errw |-> ew]] :
                    svc \in {1, 17}, sub \in {0, 1, 2, 3, 4, 5, 6, 7, 8, 9, 10, 255},
                    d \in {<<>>, <<24, 66, 192>>, <<24, 66, 192, 22>>, <<24, 66, 192, 22, 1>>, <<24, 66, 192, 22, 1, 2>>,
                           <<24, 66, 192, 22, 1, 2, 3>>, <<24, 66, 192, 22, 1, 2, 3, 4, 5, 6, 7, 8, 9, 10, 11, 12, 13, 14, 15, 16, 17>>},
                    sw \in {1, 2, 8}, ew \in {1, 4}}
    [] i = 8 -> {[op |-> "pfe.rt", a |-> [pfc |-> 8 * Len(v), v |-> v]] :
                    v \in {<<0>>, <<255>>, <<1, 2>>, <<255, 255>>, <<1, 2, 3, 4>>, Rep(4, 255), <<1, 2, 3, 4, 5, 6, 7, 8>>, Rep(8, 255), <<128, 0, 0, 0, 0, 0, 0, 0>>}}
                \cup {[op |-> "pfe.rt", a |-> [pfc |-> pfc, v |-> <<1>>]] : pfc \in {0, 24, 40, 48, 56, 128}}
                \cup {[op |-> "pfe.unpack", a |-> [pfc |-> pfc, octets |-> Take(<<1, 2, 3, 4, 5, 6, 7, 8, 9>>, k)]] :
                        pfc \in {0, 8, 16, 24, 32, 48, 64, 128}, k \in 0..9}
    [] i = 9 -> {[op |-> "fn.unpack", a |-> [errw |-> w, octets |-> Take(<<1, 2, 3, 4, 5, 6, 7, 8, 9, 10>>, k)]] :
                    w \in {1, 2, 4, 8}, k \in 0..10}

Pus1Law(op, a) ==
  CASE op = "reqid.rt" -> ReqLaw_RT(a.r) /\ ReqLaw_HdrPrefix(ReqHdr(a.r)) /\ ReqLaw_Inj(a.r, ReqSample)
    [] op = "reqid.eq" -> ReqLaw_Inj(a.r1, a.r2)
    [] op = "srv1.rt" -> Srv1ParamsOk(a.p.sub, a.p.step, a.p.fail) =>
                           Srv1Law_RT(a.p, IF Has(a.tc) THEN ReqOfTc(Get(a.tc)) ELSE a.p.req)
    [] op = "srv1.unpack" -> LET d == Srv1Dec(a.octets, a.tslen, a.stepw, a.errw) IN
                             d.ok => (Take(d.v.tm.data, 4) = ReqIdEnc(d.v.req) /\ TmEnc(d.v.tm) = Take(a.octets, d.n))
    [] OTHER -> TRUE
=============================================================================
