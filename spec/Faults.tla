------------------------------- MODULE Faults -------------------------------
(***************************************************************************)
(* Fault and robustness layer over all codec modules.                      *)
(*                                                                         *)
(*  C04  fault.decode : a validly packed CRC-protected packet is corrupted *)
(*                      by one burst (<= 16 adjacent bits, first and last  *)
(*                      bit of the burst flipped) that touches no length-  *)
(*                      determining octet, then decoded.                   *)
(*  C09  stream.split : self-delimiting units packed back to back are      *)
(*                      split purely by the lengths the decoded objects    *)
(*                      report.                                            *)
(*  C10  rob.decode   : an arbitrary octet string is handed to a public    *)
(*                      decode entry point: object or documented error;    *)
(*                      a strict prefix of a unit the specification's      *)
(*                      decoder accepts must be refused.                   *)
(***************************************************************************)
EXTENDS Pus1, CfdpMsg, Cds, ByteField, Uslp

DocAll == <<"value", "crc", "version", "tlvtype", "uslp">>
\* expectation: an object, or a refusal from the documented families
ExpOkOrRej(fams) == [okorrej |-> fams]

(***************************************************************************)
(* C04                                                                     *)
(***************************************************************************)
\* setters applied before packing (TC: data, apid, seq; TM: data, apid)
RECURSIVE ApplyMut(_, _)
ApplyMut(p, mut) == IF mut = <<>> THEN p ELSE ApplyMut([p EXCEPT ![Head(mut).f] = Head(mut).x], Tail(mut))

FaultEnc(a) == CASE a.kind = "tc" -> TcEnc(TcOf(ApplyMut(a.p, a.mut)))
                 [] a.kind = "tm" -> TmEnc(TmOf(ApplyMut(a.p, a.mut)))
                 [] a.kind = "pdu" -> PduEnc(a.pk, a.cfg, a.p)
FaultDec(a, b) == CASE a.kind = "tc" -> TcDec(b)
                    [] a.kind = "tm" -> TmDec(b, Len(a.p.stamp))
                    [] a.kind = "pdu" -> PduDec(b, a.pk)
\* 0-based bit ranges of the length-determining octets
LenBits(kind) == IF kind = "pdu" THEN 0..31 ELSE 32..47
BurstLegal(a, n) == /\ a.w \in 1..16 /\ a.pat \in 1..(2^a.w - 1)
                    /\ Bits(a.pat, a.w - 1, 1) = 1 /\ a.pat % 2 = 1
                    /\ a.off >= 0 /\ a.off + a.w <= 8 * n
                    /\ (a.off..(a.off + a.w - 1)) \cap LenBits(a.kind) = {}
FaultOk(a) == IF a.kind = "pdu" THEN a.cfg.crc = 1 /\ PduOk(a.pk, a.cfg, a.p)
              ELSE IF a.kind = "tc" THEN TcFits(ApplyMut(a.p, a.mut)) ELSE TmFits(ApplyMut(a.p, a.mut))

(***************************************************************************)
(* C09                                                                     *)
(***************************************************************************)
UnitEnc(u) ==
  CASE u.k = "sph" -> SpHdrEnc(u.p)
    [] u.k = "tc" -> TcEnc(TcOf(u.p))
    [] u.k = "tm" -> TmEnc(TmOf(u.p))
    [] u.k = "srv17" -> TmEnc(TmOf(u.p))
    [] u.k = "srv1" -> TmEnc(TmOf(Srv1TmParams(u.p, u.p.req)))
    [] u.k = "cds" -> CdsEnc(u.p.days, u.p.ms)
    [] u.k = "reqid" -> ReqIdEnc(u.p)
    [] u.k = "cfdphdr" -> CfdpHdrEnc(u.p)
    [] u.k = "lv" -> LvEnc(u.p.v)
    [] u.k = "tlv" -> TlvEnc(u.p.t, u.p.v)
    [] u.k = "ctlv" -> CtlvEnc(u.p.cls, u.p.p)
    [] u.k = "uslphdr" -> UslpHdrEnc(u.p)
    [] u.k = "pdu" -> PduEnc(u.p.kind, u.p.cfg, u.p.p)
\* number of octets the specification's decoder consumes at the front of b
UnitDecN(u, b) ==
  CASE u.k = "sph" -> 6
    [] u.k = "tc" -> TcDec(b).n
    [] u.k \in {"tm", "srv17"} -> TmDec(b, Len(u.p.stamp)).n
    [] u.k = "srv1" -> Srv1Dec(b, Len(u.p.stamp), Srv1WOf(u.p.step, 1), Srv1WOf(u.p.fail, 1)).n
    [] u.k = "cds" -> CdsDec(b).n
    [] u.k = "reqid" -> 4
    [] u.k = "cfdphdr" -> CfdpHdrDec(b).n
    [] u.k = "lv" -> LvDec(b).n
    [] u.k = "tlv" -> TlvDec(b).n
    [] u.k = "ctlv" -> CtlvDec(u.p.cls, b).n
    [] u.k = "uslphdr" -> UslpHdrDec(b, u.p.trunc).n
    [] u.k = "pdu" -> PduDec(b, u.p.kind).n
\* The length a unit DECLARES on the wire, read from its own length-determining octets only (no decoding of its contents):
\* what a receiver uses to find the next unit, whatever it thinks of this one.
CfdpDeclHlen(b) == 4 + 2 * (Bits(b[4], 4, 3) + 1) + (Bits(b[4], 0, 3) + 1)
DeclMin(u) == CASE u.k \in {"sph", "tc", "tm", "srv17", "srv1"} -> 6 [] u.k = "cds" -> 7 [] u.k \in {"reqid", "cfdphdr", "pdu"} -> 4
                [] u.k = "lv" -> 1 [] u.k \in {"tlv", "ctlv"} -> 2 [] u.k = "uslphdr" -> IF u.p.trunc = 1 THEN 4 ELSE 7
DeclLen(u, b) ==
  CASE u.k = "sph" -> 6
    [] u.k \in {"tc", "tm", "srv17", "srv1"} -> 7 + b[5] * 256 + b[6]
    [] u.k = "cds" -> 7
    [] u.k = "reqid" -> 4
    [] u.k = "cfdphdr" -> CfdpDeclHlen(b)
    [] u.k = "lv" -> 1 + b[1]
    [] u.k \in {"tlv", "ctlv"} -> 2 + b[2]
    [] u.k = "uslphdr" -> IF u.p.trunc = 1 THEN 4 ELSE 7 + Bits(b[7], 0, 3)
    [] u.k = "pdu" -> CfdpDeclHlen(b) + b[2] * 256 + b[3]
StreamOf(us) == ConcatAll([i \in DOMAIN us |-> UnitEnc(us[i])])
HasPdu(us) == \E i \in DOMAIN us : us[i].k = "pdu"
RECURSIVE SplitOk(_, _)
SplitOk(us, b) == IF us = <<>> THEN b = <<>>
                  ELSE UnitDecN(Head(us), b) = Len(UnitEnc(Head(us))) /\ SplitOk(Tail(us), Drop(b, Len(UnitEnc(Head(us)))))

(***************************************************************************)
(* C10: entry points and the specification decoder that says whether a     *)
(* complete unit is accepted consuming exactly all of it                   *)
(***************************************************************************)
RobExact(ep, full, par) ==
  CASE ep \in {"sph", "sp.apid"} -> Len(full) = 6
    [] ep = "tc" -> LET d == TcDec(full) IN d.ok /\ d.n = Len(full)
    [] ep = "tcsh" -> TcSecDec(full).ok /\ Len(full) = 5
    [] ep \in {"tm", "srv17"} -> LET d == TmDec(full, par.tslen) IN d.ok /\ d.n = Len(full)
    [] ep = "srv1" -> LET d == Srv1Dec(full, par.tslen, par.stepw, par.errw) IN d.ok /\ d.n = Len(full)
    [] ep = "reqid" -> Len(full) = 4
    [] ep = "pfe" -> par.pfc \in {8, 16, 32, 64} /\ Len(full) = par.pfc \div 8
    [] ep = "fn" -> Len(full) = par.errw
    [] ep \in {"cds", "cds.raw", "cds.read"} -> CdsDec(full).ok /\ Len(full) = 7
    [] ep = "cfdphdr" -> LET d == CfdpHdrDec(full) IN d.ok /\ d.n = Len(full)
    [] ep = "lv" -> LET d == LvDec(full) IN d.ok /\ d.n = Len(full)
    [] ep = "tlv" -> LET d == TlvDec(full) IN d.ok /\ d.n = Len(full)
    [] ep \in {"ctlv.entity", "ctlv.flow", "ctlv.fault", "ctlv.fsreq", "ctlv.fsresp", "ctlv.msg"} ->
         LET d == CtlvDec(par.cls, full) IN d.ok /\ d.n = Len(full)
    [] ep \in {"pdu", "fac", "fac.holder"} -> LET d == PduDec(full, par.want) IN d.ok /\ d.n = Len(full)
    [] ep \in {"uslp.hdr", "uslp.thdr"} -> LET d == UslpHdrDec(full, par.trunc) IN d.ok /\ d.n = Len(full)
    [] ep = "uslp.frame" -> LET d == FrameDec(full, par.mp) IN d.ok /\ d.n = Len(full)
    [] ep \in {"bf.gen", "bf.cls"} -> par.w \in {1, 2, 4, 8} /\ Len(full) = par.w
    [] OTHER -> FALSE
StrictPrefixOf(s, t) == Len(s) < Len(t) /\ s = Take(t, Len(s))

FaultOps == {"fault.decode", "stream.split", "rob.decode", "sfx.foreign"}

FaultExp(op, a) ==
  CASE op = "fault.decode" ->
         IF ~FaultOk(a) THEN ExpAny
         ELSE LET n == Len(FaultEnc(a)) IN
              IF a.w = 0 THEN [cls |-> "acc", gen |-> IF a.kind = "pdu" THEN "acc" ELSE "na",
                               crcfn |-> IF a.kind = "pdu" THEN "na" ELSE "ok", octets |-> FaultEnc(a),
                               view |-> IF a.kind = "pdu" THEN "na" ELSE "ok"]
              ELSE IF BurstLegal(a, n)
                   THEN [cls |-> "rej", gen |-> IF a.kind = "pdu" THEN "rej" ELSE "na",
                         crcfn |-> IF a.kind = "pdu" THEN "na" ELSE "bad", octets |-> FaultEnc(a),
                         view |-> IF a.kind = "pdu" THEN "na" ELSE "ok"]
                   ELSE ExpAny
    [] op = "stream.split" ->
         LET full == [lens |-> [i \in DOMAIN a.units |-> Len(UnitEnc(a.units[i]))],
                      units |-> [i \in DOMAIN a.units |-> UnitEnc(a.units[i])]]
         IN IF HasPdu(a.units) /\ Len(a.units) > 1 THEN [anyof |-> <<full, [rej |-> DocFams, late |-> TRUE]>>] ELSE full
    \* a unit as it may arrive from a foreign implementation (contents the library's own constructors never produce: file
    \* names that are not UTF-8, reserved codes, arbitrary non-length octets) followed by further octets: if the decoder accepts,
    \* the object reports the declared length and is the object obtained from the unit alone
    [] op = "sfx.foreign" ->
         IF Len(a.octets) < DeclMin(a.u) THEN ExpAny
         ELSE IF DeclLen(a.u, a.octets) # Len(a.octets) THEN ExpAny
         \* (complete PDUs are not in the property's list of units whose reported length is the declared one: content only)
         ELSE IF a.u.k = "pdu" THEN [anyof |-> <<[same |-> TRUE], ExpRej(DocAll)>>]
         ELSE [anyof |-> <<[n |-> Len(a.octets), same |-> TRUE], ExpRej(DocAll)>>]
    [] op = "rob.decode" ->
         IF a.full # <<>> /\ StrictPrefixOf(a.octets, a.full) /\ RobExact(a.ep, a.full, a.par)
         THEN ExpRej(DocAll)
         ELSE ExpOkOrRej(DocAll)

(***************************************************************************)
(* Observed packing: a library object projected to the specification's     *)
(* decoded shape just before its pack() ran (trace validation of the       *)
(* repository's own tests, vp/repotrace.py).  Objects the specification    *)
(* cannot encode (oversize parts) are not judged here - the grids do that. *)
(***************************************************************************)
ObsOps == {"obs.pack"}
ObsExp(op, a) ==
  LET v == a.v IN
  CASE a.cls = "sph" -> [octets |-> SpHdrEnc(v)]
    [] a.cls = "tc" -> IF TcFits(v) THEN [octets |-> TcEnc(v)] ELSE ExpAny
    [] a.cls = "tm" -> IF TmFits(v) THEN [octets |-> TmEnc(v)] ELSE ExpAny
    [] a.cls = "reqid" -> [octets |-> ReqIdEnc(v)]
    [] a.cls = "cds" -> IF v.days \in 0..65535 /\ Len(v.ms) = 4 THEN [octets |-> <<64>> \o U16(v.days) \o v.ms] ELSE ExpAny
    [] a.cls = "cfdphdr" -> IF CfdpHdrBuildable(v) THEN [octets |-> CfdpHdrEnc(v)] ELSE ExpAny
    [] a.cls = "lv" -> IF Len(v.v) <= 255 THEN [octets |-> LvEnc(v.v)] ELSE ExpAny
    [] a.cls = "tlv" -> IF Len(v.v) <= 255 THEN [octets |-> TlvEnc(v.t, v.v)] ELSE ExpAny
    [] a.cls = "pdu" -> IF PduOk(v.kind, v.cfg, v.p) THEN [octets |-> PduEnc(v.kind, v.cfg, v.p)] ELSE ExpAny
    [] a.cls = "uslphdr" -> IF UslpIdsOk(v) THEN [octets |-> UslpHdrEnc(v)] ELSE ExpRej(<<"value">>)
    [] OTHER -> ExpAny

FaultLaw(op, a) ==
  CASE op = "fault.decode" ->
         FaultOk(a) => LET w == FaultEnc(a) IN
                       IF a.w = 0 THEN FaultDec(a, w).ok /\ Crc16(w) = 0
                       ELSE BurstLegal(a, Len(w)) =>
                              LET c == FlipBits(w, a.off, a.w, a.pat) IN
                              /\ c # w
                              /\ ~FaultDec(a, c).ok                          \* Inv_Detect on the specification
                              /\ (a.kind # "pdu" => Crc16(c) # 0)
    [] op = "stream.split" -> SplitOk(a.units, StreamOf(a.units))
    \* grid units are well-formed: they declare their own length
    [] op = "sfx.foreign" -> (Len(a.octets) >= DeclMin(a.u) /\ "grid" \in DOMAIN a) => DeclLen(a.u, a.octets) = Len(a.octets)
    [] op = "rob.decode" -> (a.full # <<>> /\ StrictPrefixOf(a.octets, a.full) /\ RobExact(a.ep, a.full, a.par)) =>
                              \* Inv_PrefixRejected: the specification's own decoder refuses the prefix
                              ~RobExact(a.ep, a.octets, a.par)
    [] OTHER -> TRUE

(***************************************************************************)
(* Bounded grids                                                           *)
(***************************************************************************)
\* --- C04: every single bit, and for every width 2..16 the all-ones and the two-ends-only burst, at every offset
BurstShapes == {<<1, 1>>} \cup {<<w, 2^w - 1>> : w \in 2..16} \cup {<<w, 2^(w - 1) + 1>> : w \in 2..16}
FaultTcs == {[TcSample EXCEPT !.data = d] : d \in {<<>>, <<1, 2, 3>>}}
FaultTms == {[TmSample EXCEPT !.stamp = s, !.data = d] : s \in {<<>>, <<64, 0, 1, 0, 0, 0, 9>>}, d \in {<<>>, <<7>>}}
FaultCfgs == {CfgOf(1, l, 1, 2, 0, 0) : l \in 0..1} \cup {[CfgOf(1, 1, 8, 1, 1, 0) EXCEPT !.src = IdFF(8)], CfgOf(1, 0, 2, 4, 0, 1)}
FaultBase(kind, p, pk, cfg) == [kind |-> kind, p |-> p, pk |-> pk, cfg |-> cfg, mut |-> <<>>, off |-> 0, w |-> 0, pat |-> 0]
FaultAllBursts(b) == {[b EXCEPT !.off = o, !.w = s[1], !.pat = s[2]] : o \in 0..(8 * Len(FaultEnc(b)) - 1), s \in BurstShapes}
FaultNParts == 12
FaultGridPart(i, tier) ==
  LET cfgs == IF tier = "thorough" THEN FaultCfgs ELSE {CfgOf(1, 0, 1, 2, 0, 0), [CfgOf(1, 1, 8, 1, 1, 0) EXCEPT !.src = IdFF(8)]} IN
  CASE i = 1 -> {[op |-> "fault.decode", a |-> x] : x \in UNION {FaultAllBursts(FaultBase("tc", p, "none", [none |-> 0])) : p \in FaultTcs}}
    [] i = 2 -> {[op |-> "fault.decode", a |-> x] : x \in UNION {FaultAllBursts(FaultBase("tm", p, "none", [none |-> 0])) : p \in FaultTms}}
    [] i \in 3..10 -> LET k == KindOrder[i - 2] IN
                      {[op |-> "fault.decode", a |-> x] :
                         x \in UNION {FaultAllBursts(FaultBase("pdu", p, k, c)) : p \in ParamFew(k), c \in cfgs}}
    \* clean packets incl. setters applied before packing
    [] i = 11 -> {[op |-> "fault.decode", a |-> [FaultBase("tc", p, "none", [none |-> 0]) EXCEPT !.mut = m]] :
                     p \in FaultTcs, m \in {<<>>, <<[f |-> "data", x |-> <<9, 9, 9, 9>>]>>, <<[f |-> "apid", x |-> 2047]>>,
                                            <<[f |-> "seq", x |-> 16383], [f |-> "data", x |-> <<>>]>>,
                                            <<[f |-> "data", x |-> <<1>>], [f |-> "apid", x |-> 0], [f |-> "seq", x |-> 1]>>}}
                 \cup {[op |-> "fault.decode", a |-> [FaultBase("tm", p, "none", [none |-> 0]) EXCEPT !.mut = m]] :
                     p \in FaultTms, m \in {<<>>, <<[f |-> "data", x |-> <<9, 9, 9, 9>>]>>, <<[f |-> "apid", x |-> 2047]>>,
                                            <<[f |-> "data", x |-> <<1>>], [f |-> "apid", x |-> 0]>>}}
                 \cup UNION {{[op |-> "fault.decode", a |-> FaultBase("pdu", p, KindOrder[k], c)] : p \in ParamFew(KindOrder[k]), c \in FaultCfgs} : k \in 1..8}
    \* setters, then a burst
    [] i = 12 -> {[op |-> "fault.decode", a |-> x] :
                     x \in FaultAllBursts([FaultBase("tc", TcSample, "none", [none |-> 0]) EXCEPT !.mut = <<[f |-> "data", x |-> <<5, 6>>], [f |-> "seq", x |-> 77]>>])}

\* --- C09
SfxFam(w) == {<<0>>, <<255>>, <<6, 1, 5>>, Zeros(16), U16(Crc16(w)), w, TcEnc(TcOf(TcSample)), <<32, 0, 2, 17, 1, 17, 33>>}
CdsSample == [days |-> 4660, ms |-> 86399999]
StreamUnits ==
  << [k |-> "tc", p |-> TcSample], [k |-> "tm", p |-> TmSample], [k |-> "sph", p |-> SpBaseHdr],
     [k |-> "srv1", p |-> [Srv1Base EXCEPT !.sub = 6, !.step = <<[w |-> 2, v |-> <<1, 2>>]>>, !.fail = <<[w |-> 1, code |-> <<5>>, data |-> <<>>]>>]],
     [k |-> "srv17", p |-> [TmSample EXCEPT !.service = 17, !.msgcnt = 0]],
     [k |-> "cds", p |-> CdsSample], [k |-> "reqid", p |-> ReqSample], [k |-> "cfdphdr", p |-> HdrSample],
     [k |-> "lv", p |-> [v |-> <<1, 2, 3>>]], [k |-> "lv", p |-> [v |-> <<>>]], [k |-> "tlv", p |-> [t |-> 6, v |-> <<1, 2>>]],
     [k |-> "ctlv", p |-> [cls |-> "fsresp", p |-> CtlvSample("fsresp")]], [k |-> "ctlv", p |-> [cls |-> "fsreq", p |-> CtlvSample("fsreq")]],
     [k |-> "ctlv", p |-> [cls |-> "fault", p |-> CtlvSample("fault")]], [k |-> "ctlv", p |-> [cls |-> "msg", p |-> CtlvSample("msg")]],
     [k |-> "uslphdr", p |-> UslpHdrSample], [k |-> "uslphdr", p |-> UslpTruncSample],
     [k |-> "uslphdr", p |-> [UslpHdrSample EXCEPT !.vcflen = 3, !.vcf = VcfOf(3)]] >>
PduUnit(k, c, j) == [k |-> "pdu", p |-> [kind |-> KindOrder[k], cfg |-> c, p |-> CHOOSE p \in ParamFew(KindOrder[k]) : TRUE]]
\* file names a foreign filestore may send: Latin-1, a lone FF, a UTF-16 surrogate in UTF-8 clothing, an overlong NUL, a cut
\* two-octet character
ForeignNames == {<<99, 97, 102, 233>>, <<255>>, <<237, 160, 128>>, <<192, 128>>, <<97, 195>>}
ForeignSfx == {<<>>, <<0>>, <<6, 1, 5>>, <<32, 0, 2, 17, 1, 17, 33>>}
ForeignUnits ==
  {[k |-> "ctlv", p |-> [cls |-> "fsreq", p |-> [action |-> act, n1 |-> n, n2 |-> IF TwoNames(act) THEN m ELSE <<>>]]] :
     act \in {0, 2}, n \in ForeignNames \cup {<<97>>}, m \in {<<98>>, <<255, 254>>}}
  \cup {[k |-> "ctlv", p |-> [cls |-> "fsresp", p |-> [action |-> act, status |-> 0, n1 |-> n, n2 |-> IF TwoNames(act) THEN m ELSE <<>>,
                                                      msg |-> g]]] :
     act \in {0, 3}, n \in ForeignNames \cup {<<97>>}, m \in {<<98>>, <<255, 254>>}, g \in {<<>>, <<200, 201>>}}
  \* entity ID TLVs of the widths only a foreign implementation uses (3, 5, 6, 7 octets), alone and as fault location
  \cup {[k |-> "ctlv", p |-> [cls |-> "entity", p |-> [v |-> Rep(w, 7)]]] : w \in {3, 5, 6, 7}}
  \cup {[k |-> "pdu", p |-> [kind |-> "eof", cfg |-> c, p |-> [cond |-> 6, checksum |-> <<1, 2, 3, 4>>, size |-> <<9>>,
                                                              fault |-> << Rep(w, 7) >>]]] :
          c \in {CfgOf(0, 0, 1, 1, 0, 0), CfgOf(1, 1, 2, 2, 0, 0)}, w \in {3, 5, 6, 7}}
  \cup {[k |-> "pdu", p |-> [kind |-> "finished", cfg |-> c,
                             p |-> [cond |-> 4, delivery |-> 1, status |-> 1,
                                    responses |-> <<[action |-> 0, status |-> 0, n1 |-> n, n2 |-> <<>>, msg |-> <<>>]>> \o more,
                                    fault |-> fl]]] :
     c \in {CfgOf(0, 0, 1, 1, 0, 0), CfgOf(1, 1, 2, 2, 0, 0)}, n \in ForeignNames,
     more \in {<<>>, <<RespSample(2)>>}, fl \in {<<>>, << <<7>> >>}}
  \cup {[k |-> "pdu", p |-> [kind |-> "metadata", cfg |-> c,
                             p |-> [closure |-> 1, cktype |-> 3, size |-> <<2, 0>>, srcname |-> n, dstname |-> m, options |-> o]]] :
     c \in {CfgOf(0, 0, 1, 1, 0, 0), CfgOf(1, 1, 2, 2, 0, 0)}, n \in ForeignNames, m \in {<<98, 99>>, <<255>>},
     o \in {<<>>, <<[t |-> 2, v |-> <<104>>]>>}}
SfxNParts == 17
SfxGridPart(i) ==
  CASE i = 1 -> UNION {{[op |-> "tc.rt", a |-> [p |-> p, sfx |-> s, via |-> "ctor"]] : s \in SfxFam(TcEnc(TcOf(p)))} : p \in FaultTcs}
    [] i = 2 -> UNION {{[op |-> "tm.rt", a |-> [p |-> p, sfx |-> s, via |-> v]] : s \in SfxFam(TmEnc(TmOf(p))), v \in {"tm"}} : p \in FaultTms}
                \cup UNION {{[op |-> "tm.rt", a |-> [p |-> [p EXCEPT !.service = 17, !.msgcnt = 0], sfx |-> s, via |-> "srv17"]] :
                               s \in SfxFam(TmEnc(TmOf([p EXCEPT !.service = 17, !.msgcnt = 0])))} : p \in FaultTms}
    [] i = 3 -> UNION {{[op |-> "srv1.rt", a |-> [p |-> p, tc |-> <<>>, via |-> v, sfx |-> s]] :
                          s \in SfxFam(TmEnc(TmOf(Srv1TmParams(p, p.req)))), v \in {"ctor", "from_tm"}} :
                       p \in {[Srv1Base EXCEPT !.sub = x[1], !.step = x[2], !.fail = x[3]] :
                                x \in {y \in {1, 5, 6, 8} \X StepGrid \X FailGrid : Srv1ParamsOk(y[1], y[2], y[3])}}}
    [] i = 4 -> {[op |-> "reqid.rt", a |-> [r |-> ReqSample, sfx |-> s, via |-> "ctor"]] : s \in SfxFam(ReqIdEnc(ReqSample))}
                \cup {[op |-> "cds.rt", a |-> [st |-> st, sfx |-> s]] : st \in {CdsSample, [days |-> 0, ms |-> 0]}, s \in SfxFam(CdsEnc(4660, 1))}
                \cup {[op |-> "sph.unpack", a |-> [octets |-> SpHdrEnc(SpBaseHdr) \o s]] : s \in SfxFam(SpHdrEnc(SpBaseHdr))}
    [] i = 5 -> {[op |-> "cfdphdr.rt", a |-> [h |-> h, sfx |-> s]] :
                    h \in {HdrSample, [HdrSample EXCEPT !.src = IdPat(8, 0), !.dst = IdPat(8, 32), !.seq = IdPat(4, 16), !.crc = 1]},
                    s \in SfxFam(CfdpHdrEnc(HdrSample))}
                \cup {[op |-> "lv.rt", a |-> [v |-> v, sfx |-> s]] : v \in {<<>>, <<1, 2, 3>>, Rep(255, 7)}, s \in SfxFam(LvEnc(<<1, 2, 3>>))}
                \cup {[op |-> "tlv.rt", a |-> [t |-> t, v |-> v, sfx |-> s]] : t \in TlvTypes, v \in {<<>>, <<1, 2, 3>>}, s \in SfxFam(TlvEnc(6, <<1, 2, 3>>))}
    [] i = 6 -> UNION {{[op |-> "ctlv.rt", a |-> [cls |-> c, p |-> CtlvSample(c), sfx |-> s, via |-> v]] :
                          s \in SfxFam(CtlvEnc(c, CtlvSample(c))), v \in Vias} : c \in CtlvClasses}
                \cup {[op |-> "msg.rt", a |-> [kind |-> "origid", p |-> [src |-> <<1, 2>>, seq |-> <<3>>]]]}
    [] i = 7 -> {[op |-> "uslp.hdr.rt", a |-> [h |-> h, sfx |-> s]] :
                    h \in {UslpHdrSample, UslpTruncSample, [UslpHdrSample EXCEPT !.vcflen = 7, !.vcf = VcfOf(7)]},
                    s \in SfxFam(UslpHdrEnc(UslpHdrSample))}
    [] i \in 8..15 -> LET k == KindOrder[i - 7] IN
                      UNION {{[op |-> o, a |-> [kind |-> k, cfg |-> c, p |-> p, sfx |-> s]] : s \in SfxFam(PduEnc(k, c, p)), o \in {"pdu.rt", "pdu.fac"}} :
                             p \in ParamFew(k), c \in CfgFew}
    [] i = 16 -> {[op |-> "stream.split", a |-> [units |-> <<StreamUnits[x], StreamUnits[y]>>]] : x \in DOMAIN StreamUnits, y \in DOMAIN StreamUnits}
                 \cup {[op |-> "stream.split", a |-> [units |-> StreamUnits]]}
                 \cup {[op |-> "stream.split", a |-> [units |-> <<PduUnit(k, c, 1)>>]] : k \in 1..8, c \in CfgFew}
                 \cup {[op |-> "stream.split", a |-> [units |-> <<PduUnit(k, c, 1), PduUnit(k2, c, 1)>>]] : k \in 1..8, k2 \in {1, 8}, c \in {CfgOf(1, 0, 1, 2, 0, 0), CfgOf(0, 1, 2, 1, 0, 0)}}

    [] i = 17 -> {[op |-> "sfx.foreign", a |-> [u |-> u, octets |-> UnitEnc(u), sfx |-> x, grid |-> 1]] : u \in ForeignUnits, x \in ForeignSfx}

\* --- C10: all truncation points and single-octet substitutions of sample units per entry point
SubVals(orig) == {0, 1, 127, 128, 255, (orig + 1) % 256, (orig + 255) % 256}
RobCuts(ep, full, par) == {[op |-> "rob.decode", a |-> [ep |-> ep, octets |-> Take(full, k), full |-> full, par |-> par]] : k \in 0..Len(full)}
RobSubs(ep, full, par, upto) ==
  {[op |-> "rob.decode", a |-> [ep |-> ep, octets |-> [full EXCEPT ![j] = b], full |-> <<>>, par |-> par]] :
     j \in 1..MinOf(upto, Len(full)), b \in {0, 1, 127, 128, 255}}
  \cup UNION {{[op |-> "rob.decode", a |-> [ep |-> ep, octets |-> Take([full EXCEPT ![j] = b], k), full |-> <<>>, par |-> par]] :
                 b \in {0, 255}, k \in {Len(full) - 1, Len(full) - 2, j + 1}} : j \in 1..MinOf(8, Len(full))}
RobBoth(ep, full, par, upto) == RobCuts(ep, full, par) \cup RobSubs(ep, full, par, upto)
\* consistent shortening of a PDU: the data field length is set to k and the buffer ends there (CRC recomputed), so that
\* the directive's parameter parser sees every possible declared length
ShrinkPdu(w, hl, k, crc) ==
  LET raw == <<w[1]>> \o U16(k) \o SubSeq(w, 4, hl) \o SubSeq(w, hl + 1, hl + k - 2 * crc)
  IN IF crc = 1 THEN WithCrc(raw) ELSE raw
RobShrink(ep, k0, c, p, par) ==
  LET w == PduEnc(k0, c, p)  hl == CfgHdrLen(c) IN
  {[op |-> "rob.decode", a |-> [ep |-> ep, octets |-> ShrinkPdu(w, hl, k, c.crc) \o s, full |-> <<>>, par |-> par]] :
     k \in (2 * c.crc)..(Len(w) - hl), s \in {<<>>, <<0, 0, 0, 0>>}}
NoPar == [none |-> 0]
RobTmPar(ts) == [tslen |-> ts, stepw |-> 1, errw |-> 1]
Srv1Raw(sub, st, fl) == TmEnc(TmOf(Srv1TmParams([Srv1Base EXCEPT !.sub = sub, !.step = st, !.fail = fl, !.stamp = Srv1Stamp], ReqSample)))
RobNParts == 12
RobGridPart(i) ==
  CASE i = 1 -> RobBoth("sph", SpHdrEnc(SpBaseHdr), NoPar, 6) \cup RobBoth("sp.apid", SpHdrEnc(SpBaseHdr), NoPar, 6)
                \cup UNION {RobBoth("tc", TcEnc(TcOf(p)), NoPar, 11) : p \in FaultTcs}
                \cup RobBoth("tcsh", <<47, 17, 1, 1, 2>>, NoPar, 5)
    [] i = 2 -> UNION {RobBoth("tm", TmEnc(TmOf(p)), RobTmPar(Len(p.stamp)), 13) \cup RobBoth("tmsh", Drop(TmEnc(TmOf(p)), 6), RobTmPar(Len(p.stamp)), 7)
                       \cup RobCuts("tm.svc", TmEnc(TmOf(p)), NoPar) : p \in FaultTms}
                \cup RobBoth("srv17", TmEnc(TmOf([TmSample EXCEPT !.service = 17, !.msgcnt = 0])), RobTmPar(7), 13)
                \cup {[op |-> "rob.decode", a |-> [ep |-> "tm", octets |-> TmEnc(TmOf(TmSample)), full |-> <<>>, par |-> RobTmPar(t)]] : t \in 0..40}
    [] i = 3 -> RobBoth("srv1", Srv1Raw(1, <<>>, <<>>), [tslen |-> 7, stepw |-> 1, errw |-> 1], 13)
                \cup RobBoth("srv1", Srv1Raw(5, <<[w |-> 2, v |-> <<1, 2>>]>>, <<>>), [tslen |-> 7, stepw |-> 2, errw |-> 1], 13)
                \cup RobBoth("srv1", Srv1Raw(6, <<[w |-> 1, v |-> <<1>>]>>, <<[w |-> 4, code |-> <<1, 2, 3, 4>>, data |-> <<9>>]>>), [tslen |-> 7, stepw |-> 1, errw |-> 4], 13)
                \cup RobBoth("srv1", Srv1Raw(8, <<>>, <<[w |-> 1, code |-> <<5>>, data |-> <<>>]>>), [tslen |-> 7, stepw |-> 1, errw |-> 1], 13)
                \cup {[op |-> "rob.decode", a |-> [ep |-> "srv1", octets |-> Srv1Raw(6, <<[w |-> 1, v |-> <<1>>]>>, <<[w |-> 1, code |-> <<5>>, data |-> <<>>]>>),
                                                  full |-> <<>>, par |-> [tslen |-> 7, stepw |-> sw, errw |-> ew]]] : sw \in {1, 2, 4, 8}, ew \in {1, 2, 4, 8}}
                \cup RobCuts("reqid", <<24, 66, 192, 22>>, NoPar)
                \cup UNION {RobCuts("pfe", <<1, 2, 3, 4, 5, 6, 7, 8>>, [pfc |-> c]) : c \in {0, 8, 16, 24, 32, 64, 128}}
                \cup UNION {RobCuts("fn", <<1, 2, 3, 4, 5, 6, 7, 8, 9>>, [errw |-> w]) : w \in {1, 2, 4, 8}}
    [] i = 4 -> UNION {RobBoth(ep, CdsEnc(4660, 86399999), NoPar, 1) : ep \in {"cds", "cds.raw", "cds.read"}}
                \cup UNION {RobBoth("bf.gen", <<1, 2, 3, 4, 5, 6, 7, 8>>, [w |-> w], 0) \cup RobCuts("bf.cls", <<1, 2, 3, 4, 5, 6, 7, 8>>, [w |-> w]) : w \in {1, 2, 4, 8}}
                \cup RobCuts("bf.base", <<1, 2, 3, 4, 5, 6, 7, 8, 9>>, NoPar) \cup RobCuts("bf.gen", <<1, 2, 3>>, [w |-> 3])
    [] i = 5 -> UNION {RobBoth(ep, CfdpHdrEnc(h), NoPar, 4) : ep \in {"cfdphdr", "cfdp.hlen", "fdir", "fac.ptype", "fac.isdir", "fac.dtype"},
                       h \in {HdrSample, [HdrSample EXCEPT !.src = IdPat(8, 0), !.dst = IdPat(8, 32), !.seq = IdPat(4, 16), !.crc = 1, !.large = 1]}}
    [] i = 6 -> RobBoth("lv", LvEnc(<<1, 2, 3>>), NoPar, 1) \cup RobBoth("tlv", TlvEnc(6, <<1, 2, 3, 4, 5>>), NoPar, 2)
                \cup UNION {RobBoth("ctlv." \o c, CtlvEnc(c, CtlvSample(c)), [cls |-> c], 4) : c \in CtlvClasses}
                \cup UNION {RobBoth("ctlv." \o c, CtlvEnc(c2, CtlvSample(c2)), [cls |-> c], 2) : c \in CtlvClasses, c2 \in {"fsresp", "entity"}}
                \cup RobBoth("ctlv.fsresp", TlvEnc(1, FsRespValue([action |-> 2, status |-> 3, n1 |-> <<97, 98>>, n2 |-> <<99>>, msg |-> <<33, 33>>])), [cls |-> "fsresp"], 12)
                \cup RobBoth("ctlv.fsreq", TlvEnc(0, FsReqValue([action |-> 3, n1 |-> <<97, 98>>, n2 |-> <<99>>])), [cls |-> "fsreq"], 9)
    [] i \in 7..10 -> \* two PDU kinds per part, every class decoder and the factory entry points
                      UNION {UNION {RobBoth("pdu", PduEnc(k, c, p), [want |-> k], CfgHdrLen(c) + 4) \cup RobBoth("fac", PduEnc(k, c, p), [want |-> "any"], CfgHdrLen(c) + 3)
                                    \cup RobCuts("fac.holder", PduEnc(k, c, p), [want |-> "any"]) \cup RobCuts("fdir", PduEnc(k, c, p), NoPar)
                                    \cup RobCuts("fac.dtype", PduEnc(k, c, p), NoPar) :
                                    p \in ParamFew(k), c \in {CfgOf(0, 0, 1, 2, 0, 0), CfgOf(1, 1, 2, 1, 0, 0)}} :
                             k \in {KindOrder[2 * (i - 7) + 1], KindOrder[2 * (i - 7) + 2]}}
    \* a PDU of one kind through the decoder of every other kind; consistent shortening of every kind
    [] i = 11 -> UNION {UNION {RobShrink("pdu", KindOrder[k], c, p, [want |-> KindOrder[k]]) \cup RobShrink("fac", KindOrder[k], c, p, [want |-> "any"]) :
                                 c \in {CfgOf(0, 0, 1, 1, 0, 0), CfgOf(1, 1, 2, 1, 0, 0), CfgOf(0, 1, 1, 2, 0, 0)}, p \in ParamFew(KindOrder[k])} : k \in 1..8}
                 \cup UNION {{[op |-> "rob.decode", a |-> [ep |-> "pdu", octets |-> PduEnc(KindOrder[k], CfgOf(1, 0, 1, 2, 0, 0), p), full |-> <<>>,
                                                         par |-> [want |-> KindOrder[k2]]]] : k2 \in 1..8, p \in ParamFew(KindOrder[k])} : k \in 1..8}
                 \cup UNION {UNION {RobSubs("pdu", PduEnc(k, CfgOf(0, 0, 1, 1, 0, 0), p), [want |-> k], 40) :
                                      p \in {q \in ParamGrid(k) : PduOk(k, CfgOf(0, 0, 1, 1, 0, 0), q) /\ Len(PduEnc(k, CfgOf(0, 0, 1, 1, 0, 0), q)) \in 12..40
                                                /\ (k = "eof" => Has(q.fault)) /\ (k = "finished" => Has(q.responses))
                                                /\ (k = "metadata" => Has(q.options)) /\ (k = "nak" => Has(q.segs))}} :
                             k \in {"finished", "metadata", "nak", "eof"}}
    [] i = 12 -> RobBoth("uslp.hdr", UslpHdrEnc(UslpHdrSample), [trunc |-> 0], 7) \cup RobBoth("uslp.thdr", UslpHdrEnc(UslpTruncSample), [trunc |-> 1], 4)
                 \cup RobBoth("uslp.hdr", UslpHdrEnc([UslpHdrSample EXCEPT !.vcflen = 7, !.vcf = VcfOf(7)]), [trunc |-> 0], 7)
                 \cup RobCuts("uslp.htype", UslpHdrEnc(UslpHdrSample), NoPar)
                 \* every combination of optional zones (a check that only covers the OCF / FECF leaves the insert zone open)
                 \cup UNION {RobCuts("uslp.frame", FrameEnc(g), [mp |-> MatchingParams(g, "var")]) :
                             g \in {[FrameSampleVar EXCEPT !.iz = z, !.ocf = o, !.fecf = e, !.hdr = h] :
                                      z \in {<<>>, << <<201, 202, 203>> >>}, o \in {<<>>, << <<11, 12, 13, 14>> >>},
                                      e \in {<<>>, << <<21, 22>> >>}, h \in {UslpHdrSample}}}
                 \cup UNION {RobCuts("uslp.frame", FrameEnc(g), [mp |-> MatchingParams(g, "var")]) :
                             g \in {[FrameSampleTrunc EXCEPT !.iz = z, !.fecf = e] : z \in {<<>>, << <<201, 202, 203>> >>}, e \in {<<>>, << <<21, 22>> >>}}}
                 \cup UNION {RobCuts("uslp.frame", FrameEnc(g), [mp |-> MatchingParams(g, "fixed")]) :
                             g \in {[FrameSampleFixed EXCEPT !.iz = z, !.ocf = o, !.fecf = e] :
                                      z \in {<<>>, << <<201, 202, 203>> >>}, o \in {<<>>, << <<11, 12, 13, 14>> >>}, e \in {<<>>, << <<21, 22>> >>}}}
                 \cup UNION {RobBoth("uslp.frame", FrameEnc(ff[1]), [mp |-> MatchingParams(ff[1], ff[2])], 12) :
                             ff \in {<<FrameSampleFixed, "fixed">>, <<FrameSampleVar, "var">>, <<FrameSampleTrunc, "var">>,
                                     <<[FrameSampleFixed EXCEPT !.tfdz = <<>>, !.iz = <<>>], "fixed">>}}
                 \cup {[op |-> "rob.decode", a |-> [ep |-> "uslp.tfdf", octets |-> Take(<<33, 1, 2, 3, 4>>, k), full |-> <<>>,
                                                   par |-> [trunc |-> t, exact |-> x, ftype |-> ft]]] :
                         k \in 0..5, t \in 0..1, x \in {0, 1, 2, 3, 5, 9}, ft \in {"fixed", "var", "none"}}
=============================================================================
