SPECIFICATION LSpec
CHECK_DEADLOCK FALSE
VIEW LView
CONSTANT StepIds = {1}
CONSTANT MaxSteps = 4
INVARIANT Inv_InOrder
INVARIANT Inv_SeqCount
INVARIANT Inv_ReqUnique
INVARIANT Inv_ScriptPrefix
INVARIANT Inv_Done
INVARIANT Inv_NoStuck
CONSTRAINT Bound
