---------------------------- MODULE MC_Verificator ----------------------------
EXTENDS Verificator, Json

\* bound used only by the emission configuration: how many reports TC 2 may have absorbed
CONSTANT Lim2
Weight(s) == IF s = Absent THEN 0
             ELSE (IF s.acc # UNSET THEN 1 ELSE 0) + (IF s.sta # UNSET THEN 1 ELSE 0)
                  + (IF s.cmp # UNSET THEN 1 ELSE 0) + Len(s.steps)
Bound2 == (2 \in TCs) => Weight(tab[2]) <= Lim2

TabJson(tb) == [t \in 1..Cardinality(TCs) |-> tb[t]]
Emit == PrintT("EMIT " \o ToJson([src |-> TabJson(tab), ev |-> ev', dst |-> TabJson(tab')]))
=============================================================================
