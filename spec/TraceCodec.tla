----------------------------- MODULE TraceCodec -----------------------------
(***************************************************************************)
(* Trace validation of recorded codec calls (code -> specification).       *)
(* Every line of the ndjson trace is one public call of the library at its *)
(* return: operation, abstract arguments, observed outcome.  The spec      *)
(* computes its own expectation for the logged arguments and compares.     *)
(* The trace spec is total: a mismatch is reported ("BAD id expected") and *)
(* validation continues with the next event.                               *)
(***************************************************************************)
EXTENDS Codec, Json, IOUtils

Tr == ndJsonDeserialize(IOEnv.TRACE_FILE)

VARIABLE l

TraceInit == l = 1

Check(e) == LET x == Exp(e.op, e.a)
            IN IF Matches(x, e.o) THEN TRUE
               ELSE PrintT("BAD " \o ToString(e.id) \o " " \o ToJson(x))

TraceNext == /\ l <= Len(Tr)
             /\ Check(Tr[l])
             /\ (l = Len(Tr) => PrintT("DONE " \o ToString(l)))
             /\ l' = l + 1

TraceSpec == TraceInit /\ [][TraceNext]_l
=============================================================================
