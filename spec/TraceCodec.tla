----------------------------- MODULE TraceCodec -----------------------------
(***************************************************************************)
(* Trace validation of recorded codec calls (code -> specification).       *)
(* Every line of the ndjson trace is one public call of the library at its *)
(* return: operation, abstract arguments, observed outcome.  The spec      *)
(* computes its own expectation for the logged arguments and compares.     *)
(* The trace spec is total: a mismatch is reported ("BAD id expected") and *)
(* validation continues with the next event.                               *)
(***************************************************************************)
EXTENDS Codec, Json, IOUtils

Tr == ndJsonDeserialize(IOEnv.TRACE_FILE)

VARIABLE l

TraceInit == l = 1

\* Normal mode: compare here.  Fallback mode (VP_MODE = "exp", used by the harness for a shard in which the comparison itself
\* could not be evaluated - an observation of an unexpected TYPE makes TLC's equality fail): only compute and print the
\* expectation of every event; the observation is not touched and the harness compares.
ExpOnly == "VP_MODE" \in DOMAIN IOEnv /\ IOEnv.VP_MODE = "exp"
Check(e) == LET x == Exp(e.op, e.a)
            IN IF ExpOnly THEN PrintT("EXP " \o ToString(e.id) \o " " \o ToJson(x))
               ELSE IF Matches(x, e.o) THEN TRUE
               ELSE PrintT("BAD " \o ToString(e.id) \o " " \o ToJson(x))

TraceNext == /\ l <= Len(Tr)
             /\ Check(Tr[l])
             /\ (l = Len(Tr) => PrintT("DONE " \o ToString(l)))
             /\ l' = l + 1

TraceSpec == TraceInit /\ [][TraceNext]_l
=============================================================================
