---------------------------- MODULE Trace_SeqCount ----------------------------
(***************************************************************************)
(* Trace validation for the sequence counters: long histories (longer than *)
(* 2^width calls, restarts at random points, injected file faults)         *)
(* recorded from the real providers.  Every event carries the returned     *)
(* value / error family and the file content after the call.               *)
(***************************************************************************)
EXTENDS SeqCount, Json, IOUtils

Tr == ndJsonDeserialize(IOEnv.TRACE_FILE)

VARIABLES l, w

Bad(e, why) == PrintT("BAD " \o ToString(e.id) \o " " \o why)
LoggedFile(e) == IF "m" \in DOMAIN e.file THEN Missing ELSE [c |-> e.file.c]

\* Counts are carried as decimal digit strings (e.ret.vd, e.vd): widths up to 64 bits are driven.
\* expected [file, mem, ret] of the call
SpecStep(e) ==
  CASE e.op = "init" -> [file |-> LoggedFile(e), mem |-> <<48>>, ret |-> "none"]
    [] e.op = "restart" -> [file |-> IF file = Missing THEN Content(0) ELSE file, mem |-> mem, ret |-> "none"]
    [] e.op = "next_file" ->
         LET r == ReadD(file, w)
         IN IF r.ok THEN [file |-> [c |-> Overwrite(file.c, NextD(r.d, w) \o <<NL>>)], mem |-> mem,
                          ret |-> [vd |-> r.d]]
            ELSE [file |-> file, mem |-> mem, ret |-> [exc |-> r.err]]
    [] e.op = "current" ->
         LET r == ReadD(file, w)
         IN [file |-> file, mem |-> mem, ret |-> IF r.ok THEN [vd |-> r.d] ELSE [exc |-> r.err]]
    [] e.op = "next_mem" -> [file |-> file, mem |-> NextD(mem, w), ret |-> [vd |-> mem]]
    [] e.op = "delete" -> [file |-> Missing, mem |-> mem, ret |-> "none"]
    [] e.op = "scribble" -> [file |-> LoggedFile(e), mem |-> mem, ret |-> "none"]
    \* the in-memory provider's public count attribute is assigned (a count below 2^width)
    [] e.op = "set_mem" -> [file |-> file, mem |-> e.vd, ret |-> "none"]
    \* the public max_bit_width setter (driven only while the stored counts fit the new width): nothing else changes,
    \* all later calls count modulo the new 2^width
    [] e.op = "set_width" -> [file |-> file, mem |-> mem, ret |-> "none"]

TraceInit == l = 1 /\ w = 1 /\ file = Missing /\ mem = <<48>> /\ prev = -1 /\ prevMem = -1 /\ ev = [a |-> "trace"]

TraceNext ==
  /\ l <= Len(Tr)
  /\ LET e == Tr[l] IN
       /\ w' = IF e.op \in {"init", "set_width"} THEN e.w ELSE w
       /\ IF e.op = "init" THEN /\ file' = LoggedFile(e) /\ mem' = <<48>>
          ELSE LET x == SpecStep(e)
                   okRet  == x.ret = e.ret
                   okFile == x.file = LoggedFile(e)
                   okPsc  == ("psc_ok" \in DOMAIN e) => e.psc_ok
               IN /\ (IF okRet THEN TRUE ELSE Bad(e, "ret"))
                  /\ (IF okFile THEN TRUE ELSE Bad(e, "file"))
                  /\ (IF okPsc THEN TRUE ELSE Bad(e, "seqcount-range"))
                  /\ file' = LoggedFile(e)
                  /\ mem' = IF e.op = "next_mem" /\ "vd" \in DOMAIN e.ret THEN NextD(e.ret.vd, w) ELSE x.mem
  /\ (l = Len(Tr) => PrintT("DONE " \o ToString(l)))
  /\ l' = l + 1
  /\ UNCHANGED <<prev, prevMem, ev>>

TraceSpec == TraceInit /\ [][TraceNext]_<<l, w, file, mem, prev, prevMem, ev>>
=============================================================================
