-------------------------------- MODULE Uslp --------------------------------
(***************************************************************************)
(* CCSDS 732.1-B-2 (USLP) 4.1: transfer frame primary header, truncated    *)
(* primary header, transfer frame data field header and the frame layout   *)
(* (without the SDLS option).                                              *)
(*                                                                         *)
(*  octet 1   : TFVN 1100 (4) | SCID bits 15..12                           *)
(*  octet 2   : SCID bits 11..4                                            *)
(*  octet 3   : SCID bits 3..0 | source/dest (1) | VCID bits 5..3          *)
(*  octet 4   : VCID bits 2..0 | MAP ID (4) | end of frame primary header  *)
(*  octets 5-6: frame length = total octets - 1                            *)
(*  octet 7   : bypass (1) | protocol control command (1) | spare (2) |    *)
(*              OCF flag (1) | VCF count length (3)                        *)
(*  then the VCF count, 0..7 octets, big-endian                            *)
(*  A truncated header is the first four octets with the end flag set.     *)
(*                                                                         *)
(*  frame = header | insert zone | TFDF header | TFDZ | OCF (4) | FECF     *)
(*  TFDF header = construction rule (3) | protocol id (5) [ | 16-bit first *)
(*  header / last valid octet pointer for rules 000 001 010 in a           *)
(*  non-truncated fixed-length frame ]                                     *)
(*                                                                         *)
(* Abstract header: [scid, srcdst, vcid, map, trunc, flen, bypass, pcc,    *)
(*                   ocf, vcflen, vcf]   (vcf = octet string of vcflen     *)
(*                   octets; a truncated header carries zeros / <<>> in    *)
(*                   the fields it does not have)                          *)
(* Abstract frame : [hdr, iz, rule, upid, ptr, tfdz, ocf, fecf] (iz, ptr,  *)
(*                   ocf, fecf optional items)                             *)
(* Managed parameters: [ftype, iz, fecf, trunclen, fixedlen] (iz, fecf =   *)
(*                   optional sizes)                                       *)
(***************************************************************************)
EXTENDS Octets

UslpTfvn == 12
UslpFams == <<"uslp", "value">>

UslpIdsOk(h) == h.scid \in 0..65535 /\ h.vcid \in 0..63 /\ h.map \in 0..15

UslpCommonEnc(h) == << UslpTfvn * 16 + h.scid \div 4096, (h.scid \div 16) % 256,
                       (h.scid % 16) * 16 + h.srcdst * 8 + h.vcid \div 8,
                       (h.vcid % 8) * 32 + h.map * 2 + h.trunc >>
UslpHdrEnc(h) == IF h.trunc = 1 THEN UslpCommonEnc(h)
                 ELSE UslpCommonEnc(h) \o U16(h.flen)
                      \o << h.bypass * 128 + h.pcc * 64 + h.ocf * 8 + h.vcflen >> \o h.vcf
UslpHdrLen(h) == IF h.trunc = 1 THEN 4 ELSE 7 + h.vcflen

\* total decoder; wantTrunc: the header type the caller expects
UslpHdrDec(b, wantTrunc) ==
  IF Len(b) < 4 THEN Rej(UslpFams)
  ELSE IF wantTrunc = 0 /\ Len(b) < 7 THEN Rej(UslpFams)
  ELSE IF Bits(b[1], 4, 4) # UslpTfvn THEN Rej(UslpFams)
  ELSE IF b[4] % 2 # wantTrunc THEN Rej(UslpFams)
  ELSE LET common == [scid |-> Bits(b[1], 0, 4) * 4096 + b[2] * 16 + Bits(b[3], 4, 4), srcdst |-> Bits(b[3], 3, 1),
                      vcid |-> Bits(b[3], 0, 3) * 8 + Bits(b[4], 5, 3), map |-> Bits(b[4], 1, 4), trunc |-> wantTrunc]
       IN IF wantTrunc = 1
          THEN Acc(common @@ [flen |-> 0, bypass |-> 0, pcc |-> 0, ocf |-> 0, vcflen |-> 0, vcf |-> <<>>], 4)
          ELSE LET n == Bits(b[7], 0, 3) IN
               IF Len(b) < 7 + n THEN Rej(UslpFams)
               ELSE Acc(common @@ [flen |-> b[5] * 256 + b[6], bypass |-> Bits(b[7], 7, 1), pcc |-> Bits(b[7], 6, 1),
                                   ocf |-> Bits(b[7], 3, 1), vcflen |-> n, vcf |-> SubSeq(b, 8, 7 + n)], 7 + n)

\* ---- frames -------------------------------------------------------------
FpRule(r) == r \in 0..2
VpRule(r) == r \in 3..7
OptLen(o) == IF Has(o) THEN Len(Get(o)) ELSE 0
OptCat(o) == IF Has(o) THEN Get(o) ELSE <<>>

TfdfEnc(f) == << f.rule * 32 + f.upid >> \o (IF Has(f.ptr) THEN U16(Get(f.ptr)) ELSE <<>>) \o f.tfdz
FrameBody(f) == OptCat(f.iz) \o TfdfEnc(f) \o OptCat(f.ocf) \o OptCat(f.fecf)
FrameLenOf(f) == UslpHdrLen(f.hdr) + Len(FrameBody(f))
\* the header carries the frame length after set_frame_len_in_header
FrameHdr(f) == IF f.hdr.trunc = 1 THEN f.hdr ELSE [f.hdr EXCEPT !.flen = FrameLenOf(f) - 1, !.ocf = IF Has(f.ocf) THEN 1 ELSE 0]
FrameEnc(f) == UslpHdrEnc(FrameHdr(f)) \o FrameBody(f)

\* a frame the standard allows for the frame type
FrameShapeOk(f, ftype) ==
  /\ UslpIdsOk(f.hdr)
  /\ (Has(f.ocf) => Len(Get(f.ocf)) = 4)
  /\ IF ftype = "fixed" THEN f.hdr.trunc = 0 /\ FpRule(f.rule) /\ Has(f.ptr)
     ELSE VpRule(f.rule) /\ ~Has(f.ptr) /\ (f.hdr.trunc = 1 => ~Has(f.ocf))
FrameOk(f, ftype) == FrameShapeOk(f, ftype) /\ FrameLenOf(f) <= 65536
MatchingParams(f, ftype) ==
  [ftype |-> ftype, iz |-> IF Has(f.iz) THEN <<Len(Get(f.iz))>> ELSE <<>>,
   fecf |-> IF Has(f.fecf) THEN <<Len(Get(f.fecf))>> ELSE <<>>,
   trunclen |-> IF f.hdr.trunc = 1 THEN FrameLenOf(f) ELSE 0,
   fixedlen |-> IF ftype = "fixed" THEN FrameLenOf(f) ELSE 0]

OptSize(o) == IF Has(o) THEN Get(o) ELSE 0
\* total decoder; "unjudged" marks malformed input on which the standard fixes no verdict
FrameDec(b, mp) ==
  IF Len(b) < 4 THEN Rej(UslpFams)
  ELSE IF mp.ftype = "fixed" /\ Len(b) < mp.fixedlen THEN Rej(UslpFams)
  ELSE LET tr == b[4] % 2 IN
  IF tr = 1 /\ mp.ftype = "fixed" THEN Rej(UslpFams)
  ELSE LET hd == UslpHdrDec(b, tr) IN
  IF ~hd.ok THEN Rej(UslpFams)
  ELSE LET h     == hd.v
           total == IF tr = 1 THEN mp.trunclen ELSE h.flen + 1
           ocfLen == IF tr = 0 /\ h.ocf = 1 THEN 4 ELSE 0
           tfdf  == total - hd.n - OptSize(mp.iz) - ocfLen - OptSize(mp.fecf)
       IN
  IF mp.ftype = "fixed" /\ total # mp.fixedlen THEN Rej(UslpFams)
  ELSE IF tfdf <= 0 THEN Rej(UslpFams)
  ELSE IF Len(b) < total THEN Rej(UslpFams)
  ELSE LET at   == hd.n + OptSize(mp.iz)          \* octets before the TFDF
           rule == Bits(b[at + 1], 5, 3)
           hasp == mp.ftype = "fixed" /\ tr = 0 /\ FpRule(rule)
       IN
  IF (mp.ftype = "fixed" /\ ~FpRule(rule)) \/ (mp.ftype = "var" /\ ~VpRule(rule)) THEN Rej(UslpFams)
  ELSE IF hasp /\ tfdf < 3 THEN [ok |-> FALSE, rej |-> UslpFams, unjudged |-> TRUE]
  ELSE LET hl == IF hasp THEN 3 ELSE 1 IN
       Acc([hdr |-> h,
            iz |-> IF Has(mp.iz) THEN <<SubSeq(b, hd.n + 1, at)>> ELSE <<>>,
            rule |-> rule, upid |-> Bits(b[at + 1], 0, 5),
            ptr |-> IF hasp THEN <<b[at + 2] * 256 + b[at + 3]>> ELSE <<>>,
            tfdz |-> SubSeq(b, at + hl + 1, at + tfdf),
            ocf |-> IF ocfLen = 4 THEN <<SubSeq(b, at + tfdf + 1, at + tfdf + 4)>> ELSE <<>>,
            fecf |-> IF Has(mp.fecf) THEN <<SubSeq(b, at + tfdf + ocfLen + 1, total)>> ELSE <<>>], total)

(***************************************************************************)
(* Expected observations                                                   *)
(***************************************************************************)
UslpOps == {"uslp.hdr.rt", "uslp.hdr.unpack", "uslp.htype", "uslp.frame.rt", "uslp.frame.unpack", "uslp.tfdf.unpack"}

UslpExp(op, a) ==
  CASE op = "uslp.hdr.rt" ->
         IF ~UslpIdsOk(a.h) THEN ExpRej(<<"value">>)
         ELSE LET w == UslpHdrEnc(a.h) IN
              [octets |-> w, len |-> Len(w), dec |-> a.h, dlen |-> Len(w), repack |-> w, htype |-> a.h.trunc]
    [] op = "uslp.hdr.unpack" ->
         LET d == UslpHdrDec(a.octets, a.trunc) IN
         IF d.ok THEN [h |-> d.v, len |-> d.n, repack |-> Take(a.octets, d.n)] ELSE ExpRej(d.rej)
    [] op = "uslp.htype" ->
         IF Len(a.octets) < 4 THEN ExpRej(<<"value">>) ELSE [trunc |-> a.octets[4] % 2]
    [] op = "uslp.frame.rt" ->
         IF ~FrameShapeOk(a.f, a.ftype) THEN ExpRej(<<"*">>)
         \* a frame longer than the 16-bit length field can say: the statement names IDs, not lengths - not judged
         ELSE IF FrameLenOf(a.f) > 65536 THEN ExpAny
         ELSE LET w == FrameEnc(a.f) IN
              [octets |-> w, len |-> Len(w), flen |-> IF a.f.hdr.trunc = 1 THEN -1 ELSE Len(w) - 1,
               dec |-> [a.f EXCEPT !.hdr = FrameHdr(a.f)], dlen |-> Len(w), repack |-> w]
    [] op = "uslp.frame.unpack" ->
         LET d == FrameDec(a.octets, a.mp) IN
         IF d.ok THEN [f |-> d.v]
         ELSE IF "unjudged" \in DOMAIN d THEN ExpAny
         ELSE ExpRej(d.rej)
    [] op = "uslp.tfdf.unpack" -> ExpAny                                 \* only driven for robustness (C10)

(***************************************************************************)
(* Laws                                                                    *)
(***************************************************************************)
UslpLaw_HdrRT(h, sfx) == LET w == UslpHdrEnc(h) d == UslpHdrDec(w \o sfx, h.trunc)
                         IN d.ok /\ d.v = h /\ d.n = Len(w) /\ Len(w) = UslpHdrLen(h)
                            /\ ~UslpHdrDec(w, 1 - h.trunc).ok
UslpLaw_FrameRT(f, ftype) ==
  LET w == FrameEnc(f)
      d == FrameDec(w, MatchingParams(f, ftype))
  IN /\ d.ok /\ d.n = Len(w) /\ d.v = [f EXCEPT !.hdr = FrameHdr(f)]
     /\ Len(w) = FrameLenOf(f)
     /\ (f.hdr.trunc = 0 => w[5] * 256 + w[6] = Len(w) - 1)
     /\ FrameDec(w \o <<1, 2, 3>>, MatchingParams(f, ftype)) = d                          \* trailing octets
     /\ \A k \in 0..(Len(w) - 1) : ~FrameDec(Take(w, k), MatchingParams(f, ftype)).ok   \* every strict prefix
UslpLaw_Mismatch(f, ftype) ==
  LET w  == FrameEnc(f)
      mp == MatchingParams(f, ftype)
  IN /\ ~FrameDec(w, [mp EXCEPT !.ftype = IF ftype = "fixed" THEN "var" ELSE "fixed", !.fixedlen = Len(w)]).ok
     /\ (ftype = "fixed" => ~FrameDec(w, [mp EXCEPT !.fixedlen = Len(w) + 1]).ok /\ ~FrameDec(w, [mp EXCEPT !.fixedlen = Len(w) - 1]).ok)
     /\ ~FrameDec(w, [mp EXCEPT !.iz = <<Len(w)>>]).ok

(***************************************************************************)
(* Bounded grids                                                           *)
(***************************************************************************)
UslpScidGrid == {0, 1, 15, 16, 4095, 4096, 43981, 65535}
UslpVcidGrid == {0, 7, 8, 42, 63}
UslpMapGrid  == {0, 5, 15}
VcfOf(n) == [i \in 1..n |-> 160 + i]
UslpTruncHdr(s, sd, v, m) == [scid |-> s, srcdst |-> sd, vcid |-> v, map |-> m, trunc |-> 1, flen |-> 0, bypass |-> 0,
                              pcc |-> 0, ocf |-> 0, vcflen |-> 0, vcf |-> <<>>]
UslpHdrSample == [scid |-> 43981, srcdst |-> 1, vcid |-> 42, map |-> 5, trunc |-> 0, flen |-> 258, bypass |-> 1, pcc |-> 0,
                  ocf |-> 0, vcflen |-> 0, vcf |-> <<>>]
UslpTruncSample == UslpTruncHdr(43981, 1, 42, 5)
UslpBadIds == {[UslpHdrSample EXCEPT !.scid = x] : x \in {-1, 65536, 65537, -65536}}
         \cup {[UslpHdrSample EXCEPT !.vcid = x] : x \in {-1, 64, 128, -64}}
         \cup {[UslpHdrSample EXCEPT !.map = x] : x \in {-1, 16, 32, -16}}

FrameGrid(ftype, hdrs) ==
  [hdr : hdrs, iz : {<<>>, << <<201, 202>> >>}, rule : IF ftype = "fixed" THEN 0..2 ELSE 3..7, upid : {0, 5, 31},
   ptr : IF ftype = "fixed" THEN {<<0>>, <<258>>, <<65535>>} ELSE {<<>>},
   tfdz : {<<>>, <<1>>, <<1, 2, 3, 4, 5>>}, ocf : {<<>>, << <<11, 12, 13, 14>> >>},
   fecf : {<<>>, << <<21, 22>> >>, << <<21, 22, 23, 24>> >>}]
FrameHdrs == {UslpHdrSample, [UslpHdrSample EXCEPT !.vcflen = 2, !.vcf = VcfOf(2), !.scid = 0, !.srcdst = 0]}
FrameSampleFixed == [hdr |-> UslpHdrSample, iz |-> << <<201, 202>> >>, rule |-> 1, upid |-> 5, ptr |-> <<258>>,
                     tfdz |-> <<1, 2, 3, 4, 5>>, ocf |-> << <<11, 12, 13, 14>> >>, fecf |-> << <<21, 22>> >>]
FrameSampleVar == [FrameSampleFixed EXCEPT !.rule = 7, !.ptr = <<>>]
FrameSampleTrunc == [FrameSampleVar EXCEPT !.hdr = UslpTruncSample, !.ocf = <<>>]
ParamVariants(mp, n) ==
  {mp, [mp EXCEPT !.ftype = IF mp.ftype = "fixed" THEN "var" ELSE "fixed", !.fixedlen = n],
   [mp EXCEPT !.fixedlen = n + 1], [mp EXCEPT !.fixedlen = n - 1], [mp EXCEPT !.trunclen = n - 1], [mp EXCEPT !.trunclen = n + 1],
   [mp EXCEPT !.iz = <<>>], [mp EXCEPT !.iz = <<1>>], [mp EXCEPT !.iz = <<n>>], [mp EXCEPT !.fecf = <<>>], [mp EXCEPT !.fecf = <<1>>],
   [mp EXCEPT !.fecf = <<n>>], [mp EXCEPT !.iz = <<4>>, !.fecf = <<5>>]}

UslpNParts == 9
UslpGridPart(i) ==
  CASE i = 1 -> {[op |-> "uslp.hdr.rt", a |-> [h |-> UslpTruncHdr(s, sd, v, m), sfx |-> x]] :
                    s \in UslpScidGrid, sd \in 0..1, v \in UslpVcidGrid, m \in UslpMapGrid, x \in {<<>>, <<7, 7, 7, 7>>}}
    [] i = 2 -> {[op |-> "uslp.hdr.rt", a |-> [h |-> [scid |-> s, srcdst |-> sd, vcid |-> v, map |-> m, trunc |-> 0, flen |-> fl,
                                                    bypass |-> by, pcc |-> pc, ocf |-> oc, vcflen |-> n, vcf |-> VcfOf(n)], sfx |-> <<>>]] :
                    s \in {0, 43981, 65535}, sd \in 0..1, v \in {0, 42, 63}, m \in {0, 15}, fl \in {0, 258, 65535},
                    by \in 0..1, pc \in 0..1, oc \in 0..1, n \in 0..7}
    [] i = 3 -> {[op |-> "uslp.hdr.rt", a |-> [h |-> [UslpHdrSample EXCEPT !.scid = s, !.vcid = v, !.map = m, !.vcflen = n, !.vcf = c], sfx |-> <<9, 9>>]] :
                    s \in UslpScidGrid, v \in UslpVcidGrid, m \in UslpMapGrid,
                    n \in {7}, c \in {Rep(7, 255), <<128, 0, 0, 0, 0, 0, 1>>}}
                \cup {[op |-> "uslp.hdr.rt", a |-> [h |-> h, sfx |-> <<>>]] : h \in UslpBadIds}
                \cup {[op |-> "uslp.hdr.rt", a |-> [h |-> [h EXCEPT !.trunc = 1, !.flen = 0, !.bypass = 0], sfx |-> <<>>]] : h \in UslpBadIds}
    [] i = 4 -> {[op |-> "uslp.hdr.unpack", a |-> [octets |-> Take(UslpHdrEnc(h), k), trunc |-> t]] :
                    h \in {UslpHdrSample, [UslpHdrSample EXCEPT !.vcflen = 3, !.vcf = VcfOf(3)],
                           [UslpHdrSample EXCEPT !.vcflen = 7, !.vcf = VcfOf(7)], UslpTruncSample}, k \in 0..15, t \in 0..1}
                \cup {[op |-> "uslp.hdr.unpack", a |-> [octets |-> [UslpHdrEnc(UslpHdrSample) EXCEPT ![1] = v * 16 + 10], trunc |-> 0]] : v \in 0..15}
                \cup {[op |-> "uslp.htype", a |-> [octets |-> Take(<<192, 1, 2, x, 5>>, k)]] : x \in {0, 1, 254, 255}, k \in 0..5}
    [] i = 5 -> {[op |-> "uslp.frame.rt", a |-> [f |-> f, ftype |-> "fixed"]] : f \in FrameGrid("fixed", FrameHdrs)}
    [] i = 6 -> {[op |-> "uslp.frame.rt", a |-> [f |-> f, ftype |-> "var"]] : f \in FrameGrid("var", FrameHdrs \cup {UslpTruncSample})}
    \* decoding with managed parameters other than those of the sender
    [] i = 7 -> UNION {{[op |-> "uslp.frame.unpack", a |-> [octets |-> FrameEnc(ff[1]), mp |-> mp]] :
                          mp \in ParamVariants(MatchingParams(ff[1], ff[2]), FrameLenOf(ff[1]))} :
                       ff \in {<<FrameSampleFixed, "fixed">>, <<FrameSampleVar, "var">>, <<FrameSampleTrunc, "var">>,
                               <<[FrameSampleFixed EXCEPT !.iz = <<>>, !.fecf = <<>>, !.ocf = <<>>], "fixed">>,
                               <<[FrameSampleTrunc EXCEPT !.iz = <<>>, !.fecf = <<>>], "var">>}}
    \* rule / frame type combinations the standard excludes
    [] i = 8 -> {[op |-> "uslp.frame.unpack", a |-> [octets |-> FrameEnc([f EXCEPT !.rule = r]), mp |-> MatchingParams(f, t)]] :
                    f \in {FrameSampleFixed, FrameSampleVar}, r \in 0..7, t \in {"fixed", "var"}}
    [] i = 9 -> {[op |-> "uslp.frame.unpack", a |-> [octets |-> FrameEnc(f) \o s, mp |-> MatchingParams(f, t)]] :
                    f \in {FrameSampleFixed}, t \in {"fixed"}, s \in {<<>>, <<0>>, <<1, 2, 3, 4, 5, 6, 7, 8>>}}
                \cup {[op |-> "uslp.frame.unpack", a |-> [octets |-> FrameEnc(f) \o s, mp |-> MatchingParams(f, t)]] :
                    f \in {FrameSampleVar, FrameSampleTrunc}, t \in {"var"}, s \in {<<>>, <<0>>, <<1, 2, 3, 4, 5, 6, 7, 8>>}}

UslpLaw(op, a) ==
  CASE op = "uslp.hdr.rt" -> UslpIdsOk(a.h) => UslpLaw_HdrRT(a.h, a.sfx)
    [] op = "uslp.frame.rt" -> FrameOk(a.f, a.ftype) => (UslpLaw_FrameRT(a.f, a.ftype) /\ UslpLaw_Mismatch(a.f, a.ftype))
    [] OTHER -> TRUE
=============================================================================
