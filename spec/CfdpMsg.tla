------------------------------ MODULE CfdpMsg ------------------------------
(***************************************************************************)
(* CCSDS 727.0-B-5 6.1 - 6.3: reserved CFDP messages carried in            *)
(* message-to-user TLVs: value = "cfdp" | message type | fields.           *)
(*                                                                         *)
(*  00 proxy put request   : LV dest entity id | LV source name | LV dest  *)
(*  07 proxy put response  : condition (4) | spare | delivery (1) | file   *)
(*                           status (2)                                    *)
(*  09 proxy put cancel    : -                                             *)
(*  0B proxy closure req.  : spare (7) | closure requested (1)             *)
(*  04 proxy transm. mode  : spare (7) | mode (1)                          *)
(*  0A originating trans.id: 0 | id len-1 (3) | 0 | seq len-1 (3) | source *)
(*                           entity id | transaction sequence number       *)
(*  10 dir listing request : LV directory name | LV directory file name    *)
(*  11 dir listing response: response code (1) | spare (7) | LV | LV       *)
(*  15 listing options (library extension): spare (6) | recursive | all    *)
(***************************************************************************)
EXTENDS Cfdp

CfdpTag == <<99, 102, 100, 112>>          \* "cfdp"
MsgKinds == {"put_request", "put_response", "put_cancel", "closure", "txmode", "origid", "listreq", "listresp", "listopts"}
MsgType(kind) == CASE kind = "put_request" -> 0 [] kind = "put_response" -> 7 [] kind = "put_cancel" -> 9
                   [] kind = "closure" -> 11 [] kind = "txmode" -> 4 [] kind = "origid" -> 10
                   [] kind = "listreq" -> 16 [] kind = "listresp" -> 17 [] kind = "listopts" -> 21
ProxyTypes == {0, 1, 2, 3, 4, 5, 6, 7, 8, 9, 11}
DirTypes == {16, 17, 21}
OrigType == 10

MsgFields(kind, p) ==
  CASE kind = "put_request" -> LvEnc(p.dest) \o LvEnc(p.src) \o LvEnc(p.dst)
    [] kind = "put_response" -> << p.cond * 16 + p.delivery * 4 + p.status >>
    [] kind = "put_cancel" -> <<>>
    [] kind = "closure" -> << p.closure >>
    [] kind = "txmode" -> << p.mode >>
    [] kind = "origid" -> << (Len(p.src) - 1) * 16 + (Len(p.seq) - 1) >> \o p.src \o p.seq
    [] kind = "listreq" -> LvEnc(p.path) \o LvEnc(p.name)
    [] kind = "listresp" -> << p.ok * 128 >> \o LvEnc(p.path) \o LvEnc(p.name)
    [] kind = "listopts" -> << p.recursive * 2 + p.all >>
MsgValue(kind, p) == CfdpTag \o << MsgType(kind) >> \o MsgFields(kind, p)
MsgEnc(kind, p) == TlvEnc(T_Msg, MsgValue(kind, p))
MsgBuildable(kind, p) ==
  /\ Len(MsgValue(kind, p)) <= 255
  /\ (kind = "put_request" => WidthOk(Len(p.dest)) /\ Len(p.src) <= 255 /\ Len(p.dst) <= 255)
  /\ (kind = "origid" => WidthOk(Len(p.src)) /\ WidthOk(Len(p.seq)))
  /\ (kind \in {"listreq", "listresp"} => Len(p.path) <= 255 /\ Len(p.name) <= 255)

IsReserved(v) == Len(v) >= 5 /\ Take(v, 4) = CfdpTag

\* reading the parameters back from a message-to-user value
MsgParamsDec(kind, v) ==
  LET f == Drop(v, 5) IN
  CASE kind = "put_request" ->
         LET a == LvDec(f) b == LvDec(Drop(f, a.n)) c == LvDec(Drop(f, a.n + b.n))
         IN [dest |-> a.v, src |-> b.v, dst |-> c.v]
    [] kind = "put_response" -> [cond |-> Bits(f[1], 4, 4), delivery |-> Bits(f[1], 2, 1), status |-> Bits(f[1], 0, 2)]
    [] kind = "put_cancel" -> [none |-> 0]
    [] kind = "closure" -> [closure |-> Bits(f[1], 0, 1)]
    [] kind = "txmode" -> [mode |-> Bits(f[1], 0, 1)]
    [] kind = "origid" -> LET sw == Bits(f[1], 4, 3) + 1 qw == Bits(f[1], 0, 3) + 1
                          IN [src |-> SubSeq(f, 2, 1 + sw), seq |-> SubSeq(f, 2 + sw, 1 + sw + qw)]
    [] kind = "listreq" -> LET a == LvDec(f) b == LvDec(Drop(f, a.n)) IN [path |-> a.v, name |-> b.v]
    [] kind = "listresp" -> LET a == LvDec(Drop(f, 1)) b == LvDec(Drop(f, 1 + a.n))
                            IN [ok |-> Bits(f[1], 7, 1), path |-> a.v, name |-> b.v]
    [] kind = "listopts" -> [recursive |-> Bits(f[1], 1, 1), all |-> Bits(f[1], 0, 1)]

MsgOps == {"msg.rt", "msg.isres"}

MsgExp(op, a) ==
  CASE op = "msg.rt" ->
         IF ~MsgBuildable(a.kind, a.p) THEN ExpRej(<<"value">>)
         ELSE LET w == MsgEnc(a.kind, a.p)  t == MsgType(a.kind) IN
              [octets |-> w, plen |-> Len(w), t |-> T_Msg, value |-> MsgValue(a.kind, a.p), reserved |-> TRUE, mtype |-> t,
               proxy |-> t \in ProxyTypes, dir |-> t \in DirTypes, orig |-> t = OrigType,
               params |-> a.p, others |-> TRUE, generic |-> w]
    [] op = "msg.isres" -> [reserved |-> IsReserved(a.v)]

MsgLaw(op, a) ==
  CASE op = "msg.rt" -> MsgBuildable(a.kind, a.p) =>
                          LET w == MsgEnc(a.kind, a.p) d == TlvDec(w \o <<2, 0>>) IN
                          /\ d.ok /\ d.v.t = T_Msg /\ d.n = Len(w) /\ IsReserved(d.v.v)
                          /\ d.v.v[5] = MsgType(a.kind)
                          /\ MsgParamsDec(a.kind, d.v.v) = a.p
                          /\ CtlvDec("msg", w) = Acc([v |-> MsgValue(a.kind, a.p)], Len(w))
    [] OTHER -> TRUE

(***************************************************************************)
(* Bounded grids                                                           *)
(***************************************************************************)
\* (the last two contain the marker "cfdp" themselves: /cfdp/x and x.cfdp)
MsgNameGrid == {<<>>, <<97>>, <<195, 164, 47, 120>>, Rep(100, 110), <<47, 99, 102, 100, 112, 47, 120>>, <<120, 46, 99, 102, 100, 112>>}
MsgIdGrid == {IdPat(w, 0) : w \in Widths} \cup {IdFF(8), Id80(4), <<0>>}

MsgNParts == 4
MsgGridPart(i) ==
  CASE i = 1 -> {[op |-> "msg.rt", a |-> [kind |-> "put_request", p |-> [dest |-> d, src |-> s, dst |-> t]]] :
                    d \in MsgIdGrid, s \in MsgNameGrid, t \in MsgNameGrid}
                \* the value field is exactly full (255 octets) / one octet too long
                \cup {[op |-> "msg.rt", a |-> [kind |-> "put_request", p |-> [dest |-> <<7>>, src |-> Rep(n, 115), dst |-> Rep(123, 100)]]] :
                        n \in {122, 123, 124, 200}}
                \cup {[op |-> "msg.rt", a |-> [kind |-> "put_request", p |-> [dest |-> d, src |-> <<97>>, dst |-> <<98>>]]] :
                        d \in {<<>>, <<1, 2, 3>>, Rep(5, 1), Rep(16, 1)}}
    [] i = 2 -> {[op |-> "msg.rt", a |-> [kind |-> "put_response", p |-> [cond |-> c, delivery |-> d, status |-> s]]] :
                    c \in CondCodes, d \in 0..1, s \in 0..3}
                \cup {[op |-> "msg.rt", a |-> [kind |-> "put_cancel", p |-> [none |-> 0]]]}
                \cup {[op |-> "msg.rt", a |-> [kind |-> "closure", p |-> [closure |-> c]]] : c \in 0..1}
                \cup {[op |-> "msg.rt", a |-> [kind |-> "txmode", p |-> [mode |-> c]]] : c \in 0..1}
                \cup {[op |-> "msg.rt", a |-> [kind |-> "listopts", p |-> [recursive |-> r, all |-> al]]] : r \in 0..1, al \in 0..1}
                \cup {[op |-> "msg.rt", a |-> [kind |-> "origid", p |-> [src |-> s, seq |-> q]]] :
                        s \in MsgIdGrid \cup {Rep(3, 1)}, q \in MsgIdGrid \cup {Rep(5, 1)}}
    [] i = 3 -> {[op |-> "msg.rt", a |-> [kind |-> "listreq", p |-> [path |-> s, name |-> t]]] : s \in MsgNameGrid, t \in MsgNameGrid}
                \cup {[op |-> "msg.rt", a |-> [kind |-> "listresp", p |-> [ok |-> o, path |-> s, name |-> t]]] :
                        o \in 0..1, s \in MsgNameGrid, t \in MsgNameGrid}
                \cup {[op |-> "msg.rt", a |-> [kind |-> "listreq", p |-> [path |-> Rep(n, 47), name |-> Rep(124, 102)]]] : n \in {123, 124, 125}}
    [] i = 4 -> {[op |-> "msg.isres", a |-> [v |-> v]] :
                    v \in {<<>>, <<99>>, <<99, 102, 100>>, CfdpTag, CfdpTag \o <<0>>, CfdpTag \o <<255>>, CfdpTag \o <<10, 1>>,
                           <<67, 70, 68, 80, 0>>, <<255, 254, 253, 252, 0>>, <<99, 102, 100, 113, 0>>, <<99, 102, 100, 255, 0>>,
                           <<128, 102, 100, 112, 0>>, <<195, 164, 195, 164, 0>>, <<195, 40, 100, 112, 0, 0>>, <<0, 0, 0, 0, 0>>,
                           <<104, 101, 108, 108, 111, 32, 119, 111, 114, 108, 100>>, Rep(255, 99), Rep(255, 255),
                           CfdpTag \o Rep(251, 0)}}
=============================================================================
