--------------------------- MODULE Trace_SpParser ---------------------------
(***************************************************************************)
(* Trace validation for the stream parser: histories of append / parse     *)
(* calls recorded from the real parse_space_packets are replayed through   *)
(* the specification's Scan.  The spec keeps its own queue; a mismatch is  *)
(* reported and the logged queue is adopted so the rest is still checked.  *)
(***************************************************************************)
EXTENDS SpacePacket, Json, IOUtils

Tr == ndJsonDeserialize(IOEnv.TRACE_FILE)

VARIABLES l, queue, ids, clean

Bad(e, why) == PrintT("BAD " \o ToString(e.id) \o " " \o why)

TraceInit == l = 1 /\ queue = <<>> /\ ids = {} /\ clean = FALSE

Step(e) ==
  CASE e.op = "init"  -> /\ queue' = <<>>
                         /\ ids' = {e.ids[i] : i \in DOMAIN e.ids}
                         /\ clean' = e.clean
    [] e.op = "feed"  -> /\ queue' = Append(queue, e.chunk)
                         /\ UNCHANGED <<ids, clean>>
    [] e.op = "parse" -> LET r == Scan(Concat(queue), 1, <<>>, ids)
                             okOut  == e.out = r.out
                             okTail == clean => Concat(e.queue) = r.rest
                         IN /\ (IF okOut THEN TRUE ELSE Bad(e, "out"))      \* IF, not \/: TLC splits action disjunctions
                            /\ (IF okTail \/ ~okOut THEN TRUE ELSE Bad(e, "tail"))
                            /\ queue' = IF okOut /\ okTail /\ clean THEN (IF r.rest = <<>> THEN <<>> ELSE <<r.rest>>)
                                        ELSE e.queue          \* adopt the logged queue
                            /\ UNCHANGED <<ids, clean>>

TraceNext == /\ l <= Len(Tr)
             /\ Step(Tr[l])
             /\ (l = Len(Tr) => PrintT("DONE " \o ToString(l)))
             /\ l' = l + 1

TraceSpec == TraceInit /\ [][TraceNext]_<<l, queue, ids, clean>>
=============================================================================
