--------------------------- MODULE Trace_SpParser ---------------------------
(***************************************************************************)
(* Trace validation for the stream parser: histories of append / parse     *)
(* calls recorded from the real parse_space_packets are replayed through   *)
(* the specification's Scan.  The spec keeps its own queue; a mismatch is  *)
(* reported and the logged queue is adopted so the rest is still checked.  *)
(***************************************************************************)
EXTENDS SpacePacket, Json, IOUtils

Tr == ndJsonDeserialize(IOEnv.TRACE_FILE)

VARIABLES l, queue, ids, clean, deliv

Bad(e, why) == PrintT("BAD " \o ToString(e.id) \o " " \o why)

TraceInit == l = 1 /\ queue = <<>> /\ ids = {} /\ clean = FALSE /\ deliv = <<>>

Step(e) ==
  CASE e.op = "init"  -> /\ queue' = <<>>
                         /\ ids' = {e.ids[i] : i \in DOMAIN e.ids}
                         /\ clean' = e.clean
                         /\ deliv' = <<>>
    \* the caller changed the list of registered packet IDs in place (same list object) between two calls
    [] e.op = "set_ids" -> /\ ids' = {e.ids[i] : i \in DOMAIN e.ids}
                           /\ UNCHANGED <<queue, clean, deliv>>
    [] e.op = "feed"  -> /\ queue' = Append(queue, e.chunk)
                         /\ UNCHANGED <<ids, clean, deliv>>
    [] e.op = "parse" -> LET r == Scan(Concat(queue), 1, <<>>, ids)
                             okOut  == e.out = r.out
                             okTail == clean => Concat(e.queue) = r.rest
                         IN /\ (IF okOut THEN TRUE ELSE Bad(e, "out"))      \* IF, not \/: TLC splits action disjunctions
                            /\ (IF okTail \/ ~okOut THEN TRUE ELSE Bad(e, "tail"))
                            /\ queue' = IF okOut /\ okTail /\ clean THEN (IF r.rest = <<>> THEN <<>> ELSE <<r.rest>>)
                                        ELSE e.queue          \* adopt the logged queue
                            /\ deliv' = deliv \o e.out
                            /\ UNCHANGED <<ids, clean>>
    \* end of a history: the whole stream was fed and a final parse made; whatever the per-call comparison adopted on
    \* the way, every packet of the stream must have been returned exactly once, byte-identical, in order
    \* (the driver only builds streams whose filler octets cannot form a registered packet ID with any neighbour)
    [] e.op = "end"   -> /\ (IF deliv = e.packets THEN TRUE ELSE Bad(e, "lost-or-duplicated"))
                         /\ UNCHANGED <<queue, ids, clean, deliv>>

TraceNext == /\ l <= Len(Tr)
             /\ Step(Tr[l])
             /\ (l = Len(Tr) => PrintT("DONE " \o ToString(l)))
             /\ l' = l + 1

TraceSpec == TraceInit /\ [][TraceNext]_<<l, queue, ids, clean, deliv>>
=============================================================================
