SPECIFICATION TraceSpec
CHECK_DEADLOCK FALSE
CONSTANT W = 1
CONSTANT Faults = FALSE
CONSTANT BadContents = {}
