-------------------------- MODULE Trace_Verificator --------------------------
(***************************************************************************)
(* Trace validation for the verification tracker: histories recorded from  *)
(* the real PusVerificator (each event = one public call at its return     *)
(* with the returned value and the whole projected verif_dict) are stepped *)
(* through the specification's actions.  On a mismatch the event is        *)
(* reported and the logged state adopted so the remainder is still checked.*)
(***************************************************************************)
EXTENDS Verificator, Json, IOUtils

Tr == ndJsonDeserialize(IOEnv.TRACE_FILE)

VARIABLE l

Bad(e, why) == PrintT("BAD " \o ToString(e.id) \o " " \o why)

Logged(e) == [t \in TCs |-> IF t <= Len(e.tab) THEN e.tab[t] ELSE Absent]

\* what the specification says the call does: [tab, ret]
SpecStep(e) ==
  CASE e.op = "init" -> [tab |-> [t \in TCs |-> Absent], ret |-> "none"]
    [] e.op = "add_tc" -> [tab |-> IF Known(e.t) THEN tab ELSE [tab EXCEPT ![e.t] = Fresh], ret |-> ~Known(e.t)]
    [] e.op = "add_tm" -> IF Known(e.t)
                          THEN [tab |-> [tab EXCEPT ![e.t] = Upd(tab[e.t], e.sub, e.k)],
                                ret |-> [completed |-> CompletedFlag(e.sub), status |-> Upd(tab[e.t], e.sub, e.k)]]
                          ELSE [tab |-> tab, ret |-> [none |-> TRUE]]
    \* a report whose request ID differs from a registered telecommand's only in bits the tracker must not ignore
    \* (CCSDS version, packet type, secondary header flag, sequence flags): unknown - no result, no effect
    [] e.op = "ghost_tm" -> [tab |-> tab, ret |-> [none |-> TRUE]]
    [] e.op = "remove_entry" -> [tab |-> [tab EXCEPT ![e.t] = Absent], ret |-> Known(e.t)]
    [] e.op = "remove_completed" -> [tab |-> [t \in TCs |-> IF Known(t) /\ tab[t].all THEN Absent ELSE tab[t]],
                                     ret |-> "none"]

TraceInit == l = 1 /\ tab = [t \in TCs |-> Absent] /\ ev = [a |-> "trace"]

TraceNext ==
  /\ l <= Len(Tr)
  /\ LET e == Tr[l]
         x == SpecStep(e)
         okRet == x.ret = e.ret
         okTab == x.tab = Logged(e)
     IN /\ (IF okRet THEN TRUE ELSE Bad(e, "ret"))
        /\ (IF okTab THEN TRUE ELSE Bad(e, "state"))
        /\ tab' = Logged(e)
  /\ (l = Len(Tr) => PrintT("DONE " \o ToString(l)))
  /\ l' = l + 1
  /\ UNCHANGED ev

TraceSpec == TraceInit /\ [][TraceNext]_<<l, tab, ev>>
=============================================================================
