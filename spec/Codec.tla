------------------------------- MODULE Codec -------------------------------
(***************************************************************************)
(* Union of all codec modules: one expectation function Exp(op, a) used by *)
(* both conformance directions, one law predicate and the bounded grids.   *)
(***************************************************************************)
EXTENDS Faults

Exp(op, a) == IF op \in SpOps THEN SpExp(op, a)
              ELSE IF op \in PusOps THEN PusExp(op, a)
              ELSE IF op \in Pus1Ops THEN Pus1Exp(op, a)
              ELSE IF op \in CfdpOps THEN CfdpExp(op, a)
              ELSE IF op \in CdsOps THEN CdsExp(op, a)
              ELSE IF op \in BfOps THEN BfExp(op, a)
              ELSE IF op \in UslpOps THEN UslpExp(op, a)
              ELSE IF op \in MsgOps THEN MsgExp(op, a)
              ELSE IF op \in FaultOps THEN FaultExp(op, a)
              ELSE IF op \in ObsOps THEN ObsExp(op, a)
              ELSE [unknown |-> op]

Law(op, a) == IF op \in SpOps THEN SpLaw(op, a)
              ELSE IF op \in PusOps THEN PusLaw(op, a)
              ELSE IF op \in Pus1Ops THEN Pus1Law(op, a)
              ELSE IF op \in CfdpOps THEN CfdpLaw(op, a)
              ELSE IF op \in CdsOps THEN CdsLaw(op, a)
              ELSE IF op \in BfOps THEN BfLaw(op, a)
              ELSE IF op \in UslpOps THEN UslpLaw(op, a)
              ELSE IF op \in MsgOps THEN MsgLaw(op, a)
              ELSE IF op \in FaultOps THEN FaultLaw(op, a)
              ELSE TRUE

CONSTANT Tier

NParts(area) == CASE area = "cfdphdr" -> CfdpHdrNParts
                  [] area = "tlv" -> TlvNParts
                  [] area = "pdu" -> 14
                  [] area = "fd" -> 2
                  [] area = "fac" -> FacNParts
                  [] area = "sp" -> SpNParts
                  [] area = "tc" -> TcNParts
                  [] area = "tm" -> TmNParts
                  [] area = "pus1" -> Pus1NParts
                  [] area = "cds" -> CdsNParts
                  [] area = "bf" -> BfNParts
                  [] area = "uslp" -> UslpNParts
                  [] area = "msg" -> MsgNParts
                  [] area = "fault" -> FaultNParts
                  [] area = "sfx" -> SfxNParts
                  [] area = "rob" -> RobNParts

GridPart(area, i) == CASE area = "cfdphdr" -> CfdpHdrGridPart(i, Tier)
                       [] area = "tlv" -> TlvGridPart(i)
                       [] area = "pdu" -> PduGridPart(IF i <= 7 THEN i ELSE i + 1)
                       [] area = "fd" -> PduGridPart(8 * i)
                       [] area = "fac" -> FacGridPart(i)
                       [] area = "sp" -> SpGridPart(i)
                       [] area = "tc" -> TcGridPart(i)
                       [] area = "tm" -> TmGridPart(i)
                       [] area = "pus1" -> Pus1GridPart(i)
                       [] area = "cds" -> CdsGridPart(i)
                       [] area = "bf" -> BfGridPart(i)
                       [] area = "uslp" -> UslpGridPart(i)
                       [] area = "msg" -> MsgGridPart(i)
                       [] area = "fault" -> FaultGridPart(i, Tier)
                       [] area = "sfx" -> SfxGridPart(i)
                       [] area = "rob" -> RobGridPart(i)
=============================================================================
