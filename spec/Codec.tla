------------------------------- MODULE Codec -------------------------------
(***************************************************************************)
(* Union of all codec modules: one expectation function Exp(op, a) used by *)
(* both conformance directions, one law predicate and the bounded grids.   *)
(***************************************************************************)
EXTENDS Pus

Exp(op, a) == IF op \in SpOps THEN SpExp(op, a)
              ELSE IF op \in PusOps THEN PusExp(op, a)
              ELSE [unknown |-> op]

Law(op, a) == IF op \in SpOps THEN SpLaw(op, a)
              ELSE IF op \in PusOps THEN PusLaw(op, a)
              ELSE TRUE

NParts(area) == CASE area = "sp" -> SpNParts
                  [] area = "tc" -> TcNParts
                  [] area = "tm" -> TmNParts

GridPart(area, i) == CASE area = "sp" -> SpGridPart(i)
                       [] area = "tc" -> TcGridPart(i)
                       [] area = "tm" -> TmGridPart(i)
=============================================================================
