-------------------------------- MODULE Cfdp --------------------------------
(***************************************************************************)
(* CCSDS 727.0-B-5 (CFDP): fixed PDU header (5.1), LV / TLV items (5.1.9,  *)
(* 5.4), the seven file directive PDUs (5.2) and the File Data PDU (5.3).  *)
(*                                                                         *)
(* Abstract vocabulary                                                     *)
(*   cfg  = [crc, large, mode, segctrl, dir, src, dst, seq]  (src/dst/seq  *)
(*          are octet strings, their length is the width)                  *)
(*   hdr  = [type, dir, mode, crc, large, dlen, segctrl, segmeta, src,     *)
(*           seq, dst]                                                     *)
(*   file sizes / offsets / progress are big-endian octet strings of any   *)
(*   length (they may exceed the width selected by the large-file flag)    *)
(*   optional items are sequences of 0 or 1 element                        *)
(***************************************************************************)
EXTENDS Octets

CfdpVersion == 1
WidthOk(w) == w \in {1, 2, 4, 8}

(***************************************************************************)
(* 5.1 fixed header                                                        *)
(*  octet 1: version(3)=001 | type | direction | mode | crc flag | large   *)
(*  octets 2-3: PDU data field length                                      *)
(*  octet 4: seg. control | entity id len-1 (3) | seg. metadata | seq len-1 (3) *)
(*  then source id, transaction sequence number, destination id            *)
(***************************************************************************)
CfdpHdrLen(idW, seqW) == 4 + 2 * idW + seqW

CfdpHdrEnc(h) ==
  << CfdpVersion * 32 + h.type * 16 + h.dir * 8 + h.mode * 4 + h.crc * 2 + h.large >>
  \o U16(h.dlen)
  \o << h.segctrl * 128 + (Len(h.src) - 1) * 16 + h.segmeta * 8 + (Len(h.seq) - 1) >>
  \o h.src \o h.seq \o h.dst

CfdpHdrBuildable(h) == /\ Len(h.src) = Len(h.dst) /\ WidthOk(Len(h.src)) /\ WidthOk(Len(h.seq))
                       /\ h.dlen \in 0..65535

\* total decoder: families of a refusal are the union of what applies
CfdpHdrDec(b) ==
  IF Len(b) < 4 THEN Rej(<<"value">>) ELSE
  LET ver  == Bits(b[1], 5, 3)
      idW  == Bits(b[4], 4, 3) + 1
      seqW == Bits(b[4], 0, 3) + 1
      badV == ver # CfdpVersion
      badW == ~WidthOk(idW) \/ ~WidthOk(seqW) \/ Len(b) < CfdpHdrLen(idW, seqW)
  IN IF badV /\ badW THEN Rej(<<"version", "value">>)
     ELSE IF badV THEN Rej(<<"version">>)
     ELSE IF badW THEN Rej(<<"value">>)
     ELSE Acc([type |-> Bits(b[1], 4, 1), dir |-> Bits(b[1], 3, 1), mode |-> Bits(b[1], 2, 1),
               crc |-> Bits(b[1], 1, 1), large |-> Bits(b[1], 0, 1), dlen |-> b[2] * 256 + b[3],
               segctrl |-> Bits(b[4], 7, 1), segmeta |-> Bits(b[4], 3, 1),
               src |-> SubSeq(b, 5, 4 + idW), seq |-> SubSeq(b, 5 + idW, 4 + idW + seqW),
               dst |-> SubSeq(b, 5 + idW + seqW, 4 + 2 * idW + seqW)],
              CfdpHdrLen(idW, seqW))

CfgHdrLen(cfg) == CfdpHdrLen(Len(cfg.src), Len(cfg.seq))
HdrOf(cfg, type, dir, segmeta, dlen) ==
  [type |-> type, dir |-> dir, mode |-> cfg.mode, crc |-> cfg.crc, large |-> cfg.large, dlen |-> dlen,
   segctrl |-> cfg.segctrl, segmeta |-> segmeta, src |-> cfg.src, seq |-> cfg.seq, dst |-> cfg.dst]
CfgOfHdr(h) == [crc |-> h.crc, large |-> h.large, mode |-> h.mode, segctrl |-> h.segctrl, dir |-> h.dir,
                src |-> h.src, dst |-> h.dst, seq |-> h.seq]

(***************************************************************************)
(* LV and TLV                                                              *)
(***************************************************************************)
TlvTypes == {0, 1, 2, 4, 5, 6}
T_FsReq == 0  T_FsResp == 1  T_Msg == 2  T_Fault == 4  T_Flow == 5  T_Entity == 6

LvEnc(v) == << Len(v) >> \o v
LvDec(b) == IF Len(b) < 1 THEN Rej(<<"value">>)
            ELSE IF Len(b) < 1 + b[1] THEN Rej(<<"value">>)
            ELSE Acc(SubSeq(b, 2, 1 + b[1]), 1 + b[1])
TlvEnc(t, v) == << t, Len(v) >> \o v
TlvDec(b) == IF Len(b) < 2 THEN Rej(<<"value">>)
             ELSE IF b[1] \notin TlvTypes THEN Rej(<<"value">>)
             ELSE IF Len(b) < 2 + b[2] THEN Rej(<<"value">>)
             ELSE Acc([t |-> b[1], v |-> SubSeq(b, 3, 2 + b[2])], 2 + b[2])

\* filestore actions with a second file name: rename, append, replace
TwoNames(action) == action \in {2, 3, 4}
\* status codes defined for each action (727.0-B-5 table 5-18; delete/2 is left unjudged)
FsStatusOk(action, status) ==
  CASE action \in {0, 5} -> status \in {0, 1, 15}
    [] action = 1 -> status \in {0, 1, 15}
    [] action \in {2, 3, 4} -> status \in {0, 1, 2, 3, 15}
    [] action = 6 -> status \in {0, 1, 2, 15}
    [] action \in {7, 8} -> status \in {0, 2, 15}
    [] OTHER -> FALSE
FsReqValue(r)  == << r.action * 16 >> \o LvEnc(r.n1) \o (IF TwoNames(r.action) THEN LvEnc(r.n2) ELSE <<>>)
FsRespValue(r) == << r.action * 16 + r.status >> \o LvEnc(r.n1)
                  \o (IF TwoNames(r.action) THEN LvEnc(r.n2) ELSE <<>>) \o LvEnc(r.msg)
FaultValue(f)  == << f.cond * 16 + f.handler >>

\* decode the value of a filestore request / response TLV; must use the value exactly
FsDecV(v, isResp) ==
  IF Len(v) < 1 THEN Rej(<<"value">>) ELSE
  LET action == Bits(v[1], 4, 4)
      status == Bits(v[1], 0, 4)
  IN IF action > 8 THEN Rej(<<"value">>) ELSE
     LET l1 == LvDec(Drop(v, 1)) IN
     IF ~l1.ok THEN Rej(<<"value">>) ELSE
     LET r1 == Drop(v, 1 + l1.n)
         l2 == IF TwoNames(action) THEN LvDec(r1) ELSE Acc(<<>>, 0)
     IN IF ~l2.ok THEN Rej(<<"value">>) ELSE
        LET r2 == Drop(r1, l2.n) IN
        IF isResp
        THEN LET l3 == LvDec(r2) IN
             IF ~l3.ok \/ l3.n # Len(r2) \/ ~FsStatusOk(action, status) THEN Rej(<<"value">>)
             ELSE Acc([action |-> action, status |-> status, n1 |-> l1.v, n2 |-> l2.v, msg |-> l3.v], Len(v))
        \* octets after the last name inside a request's value: refusing or ignoring them are both left unjudged ("lax")
        ELSE IF r2 # <<>> THEN [ok |-> FALSE, rej |-> <<"value">>, lax |-> [action |-> action, n1 |-> l1.v, n2 |-> l2.v]]
             ELSE Acc([action |-> action, n1 |-> l1.v, n2 |-> l2.v], Len(v))

(***************************************************************************)
(* File size sensitive (FSS) fields: 4 or 8 octets by the large-file flag  *)
(***************************************************************************)
FssW(large) == IF large = 1 THEN 8 ELSE 4
FssFits(v, large) == FitsWidth(v, FssW(large))
Fss(v, large) == ToWidth(v, FssW(large))

(***************************************************************************)
(* 5.2 / 5.3 PDUs.  kind in "eof" "finished" "ack" "metadata" "nak"        *)
(* "prompt" "keepalive" "filedata"                                         *)
(***************************************************************************)
Kinds == {"eof", "finished", "ack", "metadata", "nak", "prompt", "keepalive", "filedata"}
DirectiveCode(kind) == CASE kind = "eof" -> 4 [] kind = "finished" -> 5 [] kind = "ack" -> 6
                         [] kind = "metadata" -> 7 [] kind = "nak" -> 8 [] kind = "prompt" -> 9
                         [] kind = "keepalive" -> 12
KindOfCode(c) == CASE c = 4 -> "eof" [] c = 5 -> "finished" [] c = 6 -> "ack" [] c = 7 -> "metadata"
                   [] c = 8 -> "nak" [] c = 9 -> "prompt" [] c = 12 -> "keepalive" [] OTHER -> "none"
\* direction forced per kind: 0 toward receiver, 1 toward sender
DirOf(kind, p) == CASE kind \in {"eof", "metadata", "prompt", "filedata"} -> 0
                    [] kind \in {"finished", "nak", "keepalive"} -> 1
                    [] kind = "ack" -> IF p.acked = 5 THEN 0 ELSE 1
CondCodes == {0, 1, 2, 3, 4, 5, 6, 7, 8, 10, 11, 14, 15}
ChecksumTypes == {0, 1, 2, 3, 15}

RECURSIVE ConcatAll(_)
ConcatAll(ss) == IF ss = <<>> THEN <<>> ELSE Head(ss) \o ConcatAll(Tail(ss))

\* fault location of a Finished PDU is only transmitted with an error condition
FinFaultPacked(p) == Has(p.fault) /\ p.cond \notin {0, 11}

\* directive parameter field (after the directive code octet), without CRC
ParamEnc(kind, p, large) ==
  CASE kind = "eof" -> << p.cond * 16 >> \o p.checksum \o Fss(p.size, large)
                       \o (IF Has(p.fault) THEN TlvEnc(T_Entity, Get(p.fault)) ELSE <<>>)
    [] kind = "finished" -> << p.cond * 16 + p.delivery * 4 + p.status >>
                       \o ConcatAll([i \in DOMAIN p.responses |-> TlvEnc(T_FsResp, FsRespValue(p.responses[i]))])
                       \o (IF FinFaultPacked(p) THEN TlvEnc(T_Entity, Get(p.fault)) ELSE <<>>)
    [] kind = "ack" -> << p.acked * 16 + (IF p.acked = 5 THEN 1 ELSE 0), p.cond * 16 + p.tstatus >>
    [] kind = "metadata" -> << p.closure * 64 + p.cktype >> \o Fss(p.size, large)
                       \o LvEnc(p.srcname) \o LvEnc(p.dstname)
                       \o ConcatAll([i \in DOMAIN p.options |-> TlvEnc(p.options[i].t, p.options[i].v)])
    [] kind = "nak" -> Fss(p.start, large) \o Fss(p.end, large)
                       \o ConcatAll([i \in DOMAIN p.segs |-> Fss(p.segs[i][1], large) \o Fss(p.segs[i][2], large)])
    [] kind = "prompt" -> << p.resp * 128 >>
    [] kind = "keepalive" -> Fss(p.progress, large)

\* every FSS value fits, every LV / TLV value <= 255 octets, metadata <= 63 octets
Packable(kind, p, large) ==
  CASE kind = "eof" -> FssFits(p.size, large)
    [] kind = "metadata" -> FssFits(p.size, large)
    [] kind = "nak" -> /\ FssFits(p.start, large) /\ FssFits(p.end, large)
                       /\ \A i \in DOMAIN p.segs : FssFits(p.segs[i][1], large) /\ FssFits(p.segs[i][2], large)
    [] kind = "keepalive" -> FssFits(p.progress, large)
    [] kind = "filedata" -> /\ FssFits(p.offset, large)
                            /\ (Has(p.meta) => Len(Get(p.meta).md) <= 63)
    [] OTHER -> TRUE

FdBody(p, large) == (IF Has(p.meta) THEN << Get(p.meta).state * 64 + Len(Get(p.meta).md) >> \o Get(p.meta).md ELSE <<>>)
                    \o Fss(p.offset, large) \o p.data

\* octets after the fixed header, without CRC
DataField(kind, p, large) == IF kind = "filedata" THEN FdBody(p, large)
                             ELSE << DirectiveCode(kind) >> \o ParamEnc(kind, p, large)

PduDlen(kind, cfg, p) == Len(DataField(kind, p, cfg.large)) + 2 * cfg.crc

PduEnc(kind, cfg, p) ==
  LET df == DataField(kind, p, cfg.large)
      h  == HdrOf(cfg, IF kind = "filedata" THEN 1 ELSE 0, DirOf(kind, p),
                  IF kind = "filedata" /\ Has(p.meta) THEN 1 ELSE 0, Len(df) + 2 * cfg.crc)
      w  == CfdpHdrEnc(h) \o df
  IN IF cfg.crc = 1 THEN WithCrc(w) ELSE w

PduOk(kind, cfg, p) == Packable(kind, p, cfg.large) /\ PduDlen(kind, cfg, p) <= 65535

\* the object a decoder must return for what was packed: direction forced, FSS values at their width
NormP(kind, p, large) ==
  CASE kind = "eof" -> [p EXCEPT !.size = Fss(p.size, large)]
    [] kind = "finished" -> [p EXCEPT !.fault = IF FinFaultPacked(p) THEN p.fault ELSE <<>>]
    [] kind = "metadata" -> [p EXCEPT !.size = Fss(p.size, large)]
    [] kind = "nak" -> [start |-> Fss(p.start, large), end |-> Fss(p.end, large),
                        segs |-> [i \in DOMAIN p.segs |-> <<Fss(p.segs[i][1], large), Fss(p.segs[i][2], large)>>]]
    [] kind = "keepalive" -> [progress |-> Fss(p.progress, large)]
    [] kind = "filedata" -> [p EXCEPT !.offset = Fss(p.offset, large)]
    [] kind = "ack" -> [acked |-> p.acked, subtype |-> IF p.acked = 5 THEN 1 ELSE 0, cond |-> p.cond,
                        tstatus |-> p.tstatus]
    [] OTHER -> p
NormCfg(kind, cfg, p) == [cfg EXCEPT !.dir = DirOf(kind, p)]

(***************************************************************************)
(* Decoders (total).  Refusal families: any documented decode error.       *)
(***************************************************************************)
PduRej == Rej(<<"value", "crc", "version", "tlvtype">>)

RECURSIVE TlvList(_, _)      \* parse a whole octet string as generic TLVs
TlvList(b, acc) == IF b = <<>> THEN Acc(acc, 0)
                   ELSE LET d == TlvDec(b) IN
                        IF ~d.ok THEN PduRej ELSE TlvList(Drop(b, d.n), Append(acc, d.v))

RECURSIVE FinTlvs(_, _)      \* filestore responses, then at most one entity id at the very end
FinTlvs(b, acc) ==
  IF b = <<>> THEN Acc([responses |-> acc, fault |-> <<>>], 0)
  ELSE LET d == TlvDec(b) IN
       IF ~d.ok THEN PduRej
       ELSE IF d.v.t = T_FsResp
            THEN LET r == FsDecV(d.v.v, TRUE) IN
                 IF ~r.ok THEN PduRej ELSE FinTlvs(Drop(b, d.n), Append(acc, r.v))
            ELSE IF d.v.t = T_Entity /\ d.n = Len(b)
                 THEN Acc([responses |-> acc, fault |-> << d.v.v >>], 0)
                 ELSE PduRej

RECURSIVE SegList(_, _, _)
SegList(b, w, acc) == IF b = <<>> THEN acc
                      ELSE SegList(Drop(b, 2 * w), w, Append(acc, <<Take(b, w), SubSeq(b, w + 1, 2 * w)>>))

\* pa: directive parameter field (declared data field minus directive code and CRC)
ParamDec(kind, pa, large) ==
  LET w == FssW(large) IN
  CASE kind = "eof" ->
         IF Len(pa) < 5 + w THEN PduRej ELSE
         LET rest == Drop(pa, 5 + w)
             base == [cond |-> Bits(pa[1], 4, 4), checksum |-> SubSeq(pa, 2, 5), size |-> SubSeq(pa, 6, 5 + w)]
         IN IF rest = <<>> THEN Acc(base @@ [fault |-> <<>>], 0)
            ELSE LET d == TlvDec(rest) IN
                 IF d.ok /\ d.n = Len(rest) /\ d.v.t = T_Entity THEN Acc(base @@ [fault |-> << d.v.v >>], 0)
                 ELSE PduRej
    [] kind = "finished" ->
         IF Len(pa) < 1 \/ Bits(pa[1], 4, 4) \notin CondCodes THEN PduRej ELSE
         LET t == FinTlvs(Drop(pa, 1), <<>>) IN
         IF ~t.ok THEN PduRej
         ELSE IF Has(t.v.fault) /\ Bits(pa[1], 4, 4) \in {0, 11} THEN PduRej
         ELSE Acc([cond |-> Bits(pa[1], 4, 4), delivery |-> Bits(pa[1], 2, 1), status |-> Bits(pa[1], 0, 2),
                   responses |-> t.v.responses, fault |-> t.v.fault], 0)
    [] kind = "ack" ->
         IF Len(pa) < 2 THEN PduRej
         ELSE Acc([acked |-> Bits(pa[1], 4, 4), subtype |-> Bits(pa[1], 0, 4), cond |-> Bits(pa[2], 4, 4),
                   tstatus |-> Bits(pa[2], 0, 2)], 0)
    [] kind = "metadata" ->
         IF Len(pa) < 1 + w \/ Bits(pa[1], 0, 4) \notin ChecksumTypes THEN PduRej ELSE
         LET l1 == LvDec(Drop(pa, 1 + w)) IN
         IF ~l1.ok THEN PduRej ELSE
         LET l2 == LvDec(Drop(pa, 1 + w + l1.n)) IN
         IF ~l2.ok THEN PduRej ELSE
         LET o == TlvList(Drop(pa, 1 + w + l1.n + l2.n), <<>>) IN
         IF ~o.ok THEN PduRej
         ELSE Acc([closure |-> Bits(pa[1], 6, 1), cktype |-> Bits(pa[1], 0, 4), size |-> SubSeq(pa, 2, 1 + w),
                   srcname |-> l1.v, dstname |-> l2.v, options |-> o.v], 0)
    [] kind = "nak" ->
         IF Len(pa) < 2 * w \/ (Len(pa) - 2 * w) % (2 * w) # 0 THEN PduRej
         ELSE Acc([start |-> Take(pa, w), end |-> SubSeq(pa, w + 1, 2 * w),
                   segs |-> SegList(Drop(pa, 2 * w), w, <<>>)], 0)
    [] kind = "prompt" -> IF Len(pa) < 1 THEN PduRej ELSE Acc([resp |-> Bits(pa[1], 7, 1)], 0)
    [] kind = "keepalive" -> IF Len(pa) < w THEN PduRej ELSE Acc([progress |-> Take(pa, w)], 0)

FdDec(df, segmeta, large) ==
  LET w == FssW(large) IN
  IF segmeta = 1
  THEN IF Len(df) < 1 THEN PduRej ELSE
       LET ml == Bits(df[1], 0, 6) IN
       IF Len(df) < 1 + ml + w THEN PduRej
       ELSE Acc([meta |-> << [state |-> Bits(df[1], 6, 2), md |-> SubSeq(df, 2, 1 + ml)] >>,
                 offset |-> SubSeq(df, 2 + ml, 1 + ml + w), data |-> Drop(df, 1 + ml + w)], 0)
  ELSE IF Len(df) < w THEN PduRej
       ELSE Acc([meta |-> <<>>, offset |-> Take(df, w), data |-> Drop(df, w)], 0)

\* decode a buffer as PDU; want = "any" (factory) or a specific kind (class decoder)
PduDec(b, want) ==
  LET hd == CfdpHdrDec(b) IN
  IF ~hd.ok THEN PduRej ELSE
  LET h == hd.v
      n == hd.n + h.dlen
  IN IF Len(b) < n THEN PduRej
     ELSE IF h.crc = 1 /\ (h.dlen < 2 \/ Crc16(Take(b, n)) # 0) THEN PduRej
     ELSE LET df == SubSeq(b, hd.n + 1, n - 2 * h.crc) IN
          IF h.type = 1
          THEN IF want \notin {"any", "filedata"} THEN PduRej ELSE
               LET d == FdDec(df, h.segmeta, h.large) IN
               IF ~d.ok THEN PduRej ELSE Acc([kind |-> "filedata", cfg |-> CfgOfHdr(h), p |-> d.v], n)
          ELSE IF df = <<>> THEN PduRej ELSE
               LET kind == KindOfCode(df[1]) IN
               IF kind = "none" \/ (want # "any" /\ want # kind) THEN PduRej ELSE
               LET d == ParamDec(kind, Drop(df, 1), h.large) IN
               IF ~d.ok THEN PduRej ELSE Acc([kind |-> kind, cfg |-> CfgOfHdr(h), p |-> d.v], n)

\* what the raw-buffer inspectors of the factory must report for a packed PDU
RawPduType(b) == Bits(b[1], 4, 1)
RawDirective(b) == b[CfdpHdrLen(Bits(b[4], 4, 3) + 1, Bits(b[4], 0, 3) + 1) + 1]

(***************************************************************************)
(* Concrete TLVs (5.4): class -> TLV type and value layout                 *)
(***************************************************************************)
CtlvClasses == {"entity", "flow", "fault", "fsreq", "fsresp", "msg"}
CtlvType(cls) == CASE cls = "entity" -> T_Entity [] cls = "flow" -> T_Flow [] cls = "fault" -> T_Fault
                   [] cls = "fsreq" -> T_FsReq [] cls = "fsresp" -> T_FsResp [] cls = "msg" -> T_Msg
CtlvValue(cls, p) == CASE cls \in {"entity", "flow", "msg"} -> p.v
                       [] cls = "fault" -> FaultValue(p)
                       [] cls = "fsreq" -> FsReqValue(p)
                       [] cls = "fsresp" -> FsRespValue(p)
CtlvEnc(cls, p) == TlvEnc(CtlvType(cls), CtlvValue(cls, p))
CtlvBuildable(cls, p) == Len(CtlvValue(cls, p)) <= 255
                         /\ (cls \in {"fsreq", "fsresp"} => (Len(p.n1) <= 255 /\ Len(p.n2) <= 255))
                         /\ (cls = "fsresp" => Len(p.msg) <= 255)
\* decode through a concrete class: type mismatch first, then the value layout
CtlvDec(cls, b) ==
  LET d == TlvDec(b) IN
  IF ~d.ok THEN Rej(<<"value">>)
  ELSE IF d.v.t # CtlvType(cls) THEN Rej(<<"tlvtype">>)
  ELSE CASE cls \in {"entity", "flow", "msg"} -> Acc([v |-> d.v.v], d.n)
         [] cls = "fault" -> IF Len(d.v.v) < 1 THEN Rej(<<"value">>)
                             ELSE Acc([cond |-> Bits(d.v.v[1], 4, 4), handler |-> Bits(d.v.v[1], 0, 4)], d.n)
         [] cls = "fsreq" -> LET r == FsDecV(d.v.v, FALSE) IN IF r.ok THEN Acc(r.v, d.n) ELSE Rej(<<"value">>)
         [] cls = "fsresp" -> LET r == FsDecV(d.v.v, TRUE) IN IF r.ok THEN Acc(r.v, d.n) ELSE Rej(<<"value">>)

(***************************************************************************)
(* Expected observations                                                   *)
(***************************************************************************)
CfdpOps == {"cfdphdr.rt", "cfdphdr.unpack", "lv.rt", "lv.unpack", "tlv.rt", "tlv.unpack", "ctlv.rt", "ctlv.unpack",
            "ctlv.mismatch", "pdu.rt", "pdu.fac", "pdu.unpack", "holder.matrix", "fd.maxseg", "nak.maxsegs"}

KindOrder == <<"eof", "finished", "ack", "metadata", "nak", "prompt", "keepalive", "filedata">>
WithSfx(full, sfx, fams) == IF sfx = <<>> THEN full ELSE [anyof |-> <<full, [rej |-> fams, late |-> TRUE]>>]
DocFams == <<"value", "crc", "version", "tlvtype">>

CfdpExp(op, a) ==
  CASE op = "cfdphdr.rt" ->
         IF ~CfdpHdrBuildable(a.h) THEN ExpRej(<<"value">>)
         ELSE LET w == CfdpHdrEnc(a.h) IN
              [octets |-> w, hlen |-> Len(w), plen |-> Len(w) + a.h.dlen, cfglen |-> Len(w), rawlen |-> Len(w),
               dec |-> a.h, dhlen |-> Len(w), repack |-> w]
    [] op = "cfdphdr.unpack" ->
         LET d == CfdpHdrDec(a.octets) IN
         IF d.ok THEN [h |-> d.v, hlen |-> d.n, repack |-> Take(a.octets, d.n)] ELSE ExpRej(d.rej)
    [] op = "lv.rt" ->
         IF Len(a.v) > 255 THEN ExpRej(<<"value">>)
         ELSE [octets |-> LvEnc(a.v), plen |-> Len(a.v) + 1, dec |-> a.v, dplen |-> Len(a.v) + 1]
    [] op = "lv.unpack" ->
         LET d == LvDec(a.octets) IN IF d.ok THEN [v |-> d.v, plen |-> d.n] ELSE ExpRej(d.rej)
    [] op = "tlv.rt" ->
         IF Len(a.v) > 255 THEN ExpRej(<<"value">>)
         ELSE [octets |-> TlvEnc(a.t, a.v), plen |-> Len(a.v) + 2, dec |-> [t |-> a.t, v |-> a.v],
               dplen |-> Len(a.v) + 2, eq |-> TRUE]
    [] op = "tlv.unpack" ->
         LET d == TlvDec(a.octets) IN IF d.ok THEN [tlv |-> d.v, plen |-> d.n] ELSE ExpRej(d.rej)
    [] op = "ctlv.rt" ->
         IF ~CtlvBuildable(a.cls, a.p) THEN ExpRej(<<"value">>)
         ELSE LET w == CtlvEnc(a.cls, a.p) IN
              IF a.cls \in {"fsreq", "fsresp"}
              THEN \* a decoded filestore TLV whose first file name is changed before its first pack() packs the new parameters
                   LET q == [a.p EXCEPT !.n1 = IF Len(a.p.n1) < 200 THEN a.p.n1 \o <<122>> ELSE <<122>>] IN
                   [octets |-> w, plen |-> Len(w), dec |-> a.p, dplen |-> Len(w), repack |-> w, eq |-> TRUE,
                    t |-> CtlvType(a.cls), edit |-> IF CtlvBuildable(a.cls, q) THEN CtlvEnc(a.cls, q) ELSE <<>>]
              ELSE [octets |-> w, plen |-> Len(w), dec |-> a.p, dplen |-> Len(w), repack |-> w, eq |-> TRUE,
                    t |-> CtlvType(a.cls)]
    [] op = "ctlv.unpack" ->
         LET d == CtlvDec(a.cls, a.octets)
             t == TlvDec(a.octets)
             r == IF a.cls = "fsreq" /\ t.ok /\ t.v.t = T_FsReq THEN FsDecV(t.v.v, FALSE) ELSE [ok |-> TRUE]
         IN IF d.ok THEN [p |-> d.v, plen |-> d.n]
            \* accepted although not canonical: the object must then report the length of what it packs itself
            ELSE IF "lax" \in DOMAIN r THEN [anyof |-> <<[p |-> r.lax, plen |-> Len(CtlvEnc("fsreq", r.lax))], ExpRej(d.rej)>>]
            ELSE ExpRej(d.rej)
    [] op = "ctlv.mismatch" ->
         \* a.octets is a well-formed TLV of a type other than the class's
         IF a.via = "holder" THEN ExpRej(<<"tlvtype", "type">>) ELSE ExpRej(<<"tlvtype">>)
    [] op = "pdu.rt" ->
         IF ~PduOk(a.kind, a.cfg, a.p) THEN ExpRej(<<"*">>)
         ELSE LET w == PduEnc(a.kind, a.cfg, a.p)
                  full == [octets |-> w, plen |-> Len(w), dflen |-> PduDlen(a.kind, a.cfg, a.p),
                           hlen |-> CfgHdrLen(a.cfg) + (IF a.kind = "filedata" THEN 0 ELSE 1),
                           dec |-> [kind |-> a.kind, cfg |-> NormCfg(a.kind, a.cfg, a.p),
                                    p |-> NormP(a.kind, a.p, a.cfg.large)],
                           dplen |-> Len(w), ddflen |-> PduDlen(a.kind, a.cfg, a.p), eq |-> TRUE, repack |-> w,
                           caller |-> TRUE,
                           rebuild |-> w]      \* a PDU constructed from the decoded object's attribute values packs the same octets
              IN WithSfx(full, a.sfx, DocFams)
    [] op = "pdu.fac" ->
         IF ~PduOk(a.kind, a.cfg, a.p) THEN ExpRej(<<"*">>)
         ELSE LET w == PduEnc(a.kind, a.cfg, a.p)
                  full == [cls |-> a.kind, eq |-> TRUE, repack |-> w, ptype |-> IF a.kind = "filedata" THEN 1 ELSE 0,
                           isdir |-> a.kind # "filedata",
                           dtype |-> IF a.kind = "filedata" THEN -1 ELSE DirectiveCode(a.kind),
                           hptype |-> IF a.kind = "filedata" THEN 1 ELSE 0,
                           hdtype |-> IF a.kind = "filedata" THEN -1 ELSE DirectiveCode(a.kind),
                           hplen |-> Len(w), hpack |-> w,
                           row |-> [i \in 1..8 |-> IF KindOrder[i] = a.kind THEN "ok" ELSE "type"]]
              IN WithSfx(full, a.sfx, DocFams)
    [] op = "pdu.unpack" ->
         LET d == PduDec(a.octets, a.want) IN
         IF ~d.ok THEN ExpRej(d.rej)
         \* a complete PDU followed by further octets: decoded as the PDU alone, or refused (C09)
         ELSE IF d.n < Len(a.octets) THEN [anyof |-> <<[pdu |-> d.v, plen |-> d.n], ExpRej(DocFams)>>]
         ELSE [pdu |-> d.v, plen |-> d.n]
    [] op = "holder.matrix" ->
         [row |-> [i \in 1..8 |-> IF KindOrder[i] = a.kind THEN "ok" ELSE "type"]]
    [] op = "fd.maxseg" ->
         LET sub == CfgHdrLen(a.cfg) + (IF Has(a.meta) THEN 1 + Len(Get(a.meta).md) ELSE 0) + FssW(a.cfg.large) + 2 * a.cfg.crc
         IN IF a.maxlen < sub THEN ExpRej(<<"value">>) ELSE [n |-> a.maxlen - sub]
    [] op = "nak.maxsegs" ->
         LET base == CfgHdrLen(a.cfg) + 1 + 2 * FssW(a.cfg.large) + 2 * a.cfg.crc
         IN IF a.maxlen < base THEN ExpRej(<<"value">>) ELSE [n |-> (a.maxlen - base) \div (2 * FssW(a.cfg.large))]

(***************************************************************************)
(* Laws                                                                    *)
(***************************************************************************)
CfdpLaw_HdrRT(h, sfx) == LET w == CfdpHdrEnc(h) d == CfdpHdrDec(w \o sfx)
                         IN d.ok /\ d.v = h /\ d.n = Len(w) /\ Len(w) = CfdpHdrLen(Len(h.src), Len(h.seq))
CfdpLaw_PduRT(kind, cfg, p) ==
  LET w == PduEnc(kind, cfg, p)
      d == PduDec(w, kind)
      f == PduDec(w, "any")
  IN /\ d.ok /\ f = d
     /\ d.v = [kind |-> kind, cfg |-> NormCfg(kind, cfg, p), p |-> NormP(kind, p, cfg.large)]
     /\ d.n = Len(w)
     /\ Len(w) = CfgHdrLen(cfg) + PduDlen(kind, cfg, p)                      \* data-field length law
     /\ w[2] * 256 + w[3] = Len(w) - CfgHdrLen(cfg)
     /\ (cfg.crc = 1 => Crc16(w) = 0)                                        \* trailer law
     /\ RawPduType(w) = (IF kind = "filedata" THEN 1 ELSE 0)
     /\ (kind # "filedata" => RawDirective(w) = DirectiveCode(kind))
     /\ PduEnc(kind, d.v.cfg, d.v.p) = w                                     \* re-pack law
CfdpLaw_PduSuffix(kind, cfg, p, sfx) == PduDec(PduEnc(kind, cfg, p) \o sfx, kind) = PduDec(PduEnc(kind, cfg, p), kind)
CfdpLaw_PduPrefix(kind, cfg, p) == LET w == PduEnc(kind, cfg, p) IN \A k \in 0..(Len(w) - 1) : ~PduDec(Take(w, k), kind).ok

(***************************************************************************)
(* Bounded grids                                                           *)
(***************************************************************************)
IdPat(w, base) == [i \in 1..w |-> base + i]
IdFF(w) == [i \in 1..w |-> 255]
Id80(w) == [i \in 1..w |-> IF i = 1 THEN 128 ELSE 0]
Widths == {1, 2, 4, 8}
CfgOf(crc, large, idW, seqW, mode, dir) ==
  [crc |-> crc, large |-> large, mode |-> mode, segctrl |-> 0, dir |-> dir,
   src |-> IdPat(idW, 0), dst |-> IdPat(idW, 32), seq |-> IdPat(seqW, 16)]
CfgAll == {CfgOf(c, l, i, s, m, 0) : c \in 0..1, l \in 0..1, i \in Widths, s \in Widths, m \in 0..1}
CfgFew == {CfgOf(c, l, 1, 2, 0, d) : c \in 0..1, l \in 0..1, d \in 0..1}
          \cup {[CfgOf(1, 1, 8, 8, 1, 1) EXCEPT !.src = IdFF(8), !.dst = Id80(8), !.seq = IdFF(8)]}
          \* record boundaries preserved (segmentation control bit set): the bit shares an octet with the ID width
          \cup {[CfgOf(c, 0, w[1], w[2], 0, 0) EXCEPT !.segctrl = 1] : c \in 0..1, w \in {<<1, 1>>, <<2, 8>>, <<8, 2>>}}
CfgAllS == CfgAll \cup {[c EXCEPT !.segctrl = 1] : c \in {CfgOf(0, 0, 1, 1, 0, 0), CfgOf(1, 1, 4, 2, 1, 0), CfgOf(0, 1, 8, 8, 0, 0)}}

HdrGrid(idW, seqW) ==
  {[type |-> t, dir |-> d, mode |-> m, crc |-> c, large |-> l, dlen |-> n, segctrl |-> sc, segmeta |-> sm,
    src |-> ids[1], seq |-> ids[2], dst |-> ids[3]] :
      t \in 0..1, d \in 0..1, m \in 0..1, c \in 0..1, l \in 0..1, sc \in 0..1, sm \in 0..1,
      n \in {0, 1, 258, 65535},
      ids \in {<<IdPat(idW, 0), IdPat(seqW, 16), IdPat(idW, 32)>>, <<IdFF(idW), IdFF(seqW), IdFF(idW)>>,
               <<Id80(idW), Id80(seqW), IdPat(idW, 64)>>}}
HdrSample == [type |-> 0, dir |-> 0, mode |-> 1, crc |-> 0, large |-> 0, dlen |-> 5, segctrl |-> 0, segmeta |-> 0,
              src |-> <<1, 2>>, seq |-> <<17>>, dst |-> <<33, 34>>]
HdrBad == {[HdrSample EXCEPT !.dst = <<33>>], [HdrSample EXCEPT !.src = <<1>>], [HdrSample EXCEPT !.dst = <<1, 2, 3, 4>>],
           [HdrSample EXCEPT !.dlen = 65536], [HdrSample EXCEPT !.dlen = 65537], [HdrSample EXCEPT !.dlen = 131071]}
HdrTail == <<1, 2, 3, 4, 5, 6, 7, 8, 9, 10, 11, 12, 13, 14, 15, 16, 17, 18, 19, 20, 21, 22, 23, 24>>
WidthPairs == <<<<1,1>>, <<1,2>>, <<1,4>>, <<1,8>>, <<2,1>>, <<2,2>>, <<2,4>>, <<2,8>>,
                <<4,1>>, <<4,2>>, <<4,4>>, <<4,8>>, <<8,1>>, <<8,2>>, <<8,4>>, <<8,8>>>>

CfdpHdrNParts == 20
CfdpHdrGridPart(i, tier) ==
  CASE i \in 1..16 -> {[op |-> "cfdphdr.rt", a |-> [h |-> h, sfx |-> s]] :
                         h \in HdrGrid(WidthPairs[i][1], WidthPairs[i][2]), s \in {<<>>}}
    [] i = 17 -> {[op |-> "cfdphdr.rt", a |-> [h |-> h, sfx |-> <<>>]] : h \in HdrBad}
                 \* IDs / sequence number reach their values by in-place assignment to the byte fields
                 \cup {[op |-> "cfdphdr.rt", a |-> [h |-> [HdrSample EXCEPT !.src = ids[1], !.seq = ids[2], !.dst = ids[3]], sfx |-> <<>>, via |-> "inplace"]] :
                         ids \in {<<IdPat(WidthPairs[j][1], 0), IdPat(WidthPairs[j][2], 16), IdPat(WidthPairs[j][1], 32)>> : j \in 1..16}
                                 \cup {<<IdFF(2), IdFF(4), Id80(2)>>, <<Zeros(8), Zeros(1), Zeros(8)>>}}
                 \cup {[op |-> "cfdphdr.rt", a |-> [h |-> HdrSample, sfx |-> s]] : s \in {<<0>>, <<255, 255>>, HdrTail}}
    [] i = 18 -> {[op |-> "cfdphdr.unpack", a |-> [octets |-> <<o1, 0, 5, o4>> \o HdrTail]] :
                     o1 \in 0..255, o4 \in (IF tier = "thorough" THEN 0..255
                                             ELSE {0, 1, 3, 7, 16, 17, 34, 51, 68, 85, 102, 119, 128, 136, 255, 8})}
    [] i = 19 -> {[op |-> "cfdphdr.unpack", a |-> [octets |-> <<o1, 255, 255, o4>> \o HdrTail]] :
                     o4 \in 0..255, o1 \in {32, 63, 0, 64, 33}}
    [] i = 20 -> {[op |-> "cfdphdr.unpack", a |-> [octets |-> Take(CfdpHdrEnc(h), k)]] :
                     h \in {[HdrSample EXCEPT !.src = IdPat(WidthPairs[j][1], 0), !.dst = IdPat(WidthPairs[j][1], 32),
                                              !.seq = IdPat(WidthPairs[j][2], 16)] : j \in 1..16}, k \in 0..27}

\* names: "", "a", 2-octet UTF-8 character + ".txt", 100 octets, 255 octets
\* (the last: a name that begins with the byte-order mark U+FEFF - it is a character of the name like any other)
\* (then: "e" + combining acute accent - valid, not NFC; a name ending in NUL; a name with format-string braces)
NameGrid == {<<>>, <<97>>, <<195, 164, 46, 116, 120, 116>>, Rep(100, 120), <<239, 187, 191, 110, 46, 116>>,
             <<101, 204, 129, 46, 116>>, <<97, 0>>, <<123, 125, 123, 48, 46, 120, 125>>}
LenGrid == {0, 1, 2, 127, 128, 254, 255, 256}
EntitySample == [v |-> <<1, 2>>]
CtlvSample(cls) == CASE cls = "entity" -> [v |-> <<1, 2>>] [] cls = "flow" -> [v |-> <<9, 8, 7>>]
                     [] cls = "msg" -> [v |-> <<104, 105>>] [] cls = "fault" -> [cond |-> 4, handler |-> 3]
                     [] cls = "fsreq" -> [action |-> 2, n1 |-> <<97>>, n2 |-> <<98>>]
                     [] cls = "fsresp" -> [action |-> 0, status |-> 1, n1 |-> <<97>>, n2 |-> <<>>, msg |-> <<>>]
FsStatuses(action) == {s \in {0, 1, 2, 3, 15} : FsStatusOk(action, s)}
Vias == {"unpack", "from_tlv", "holder"}

TlvNParts == 9
TlvGridPart(i) ==
  CASE i = 1 -> {[op |-> "lv.rt", a |-> [v |-> Rep(n, 65 + (n % 7)), sfx |-> s]] : n \in LenGrid, s \in {<<>>, <<7>>, <<2, 65, 66>>}}
    [] i = 2 -> {[op |-> "tlv.rt", a |-> [t |-> t, v |-> Rep(n, 48 + t), sfx |-> s]] :
                    t \in TlvTypes, n \in LenGrid, s \in {<<>>, <<6, 1, 5>>}}
    [] i = 3 -> {[op |-> "lv.unpack", a |-> [octets |-> Take(LvEnc(<<1, 2, 3>>), k)]] : k \in 0..4}
                \cup {[op |-> "tlv.unpack", a |-> [octets |-> Take(TlvEnc(6, <<1, 2, 3, 4, 5>>), k)]] : k \in 0..7}
                \cup {[op |-> "tlv.unpack", a |-> [octets |-> <<t, 1, 9>>]] : t \in {0, 1, 2, 3, 4, 5, 6, 7, 255}}
                \cup {[op |-> "tlv.unpack", a |-> [octets |-> <<6, 0>>]], [op |-> "tlv.unpack", a |-> [octets |-> <<6, 0, 9>>]]}
    [] i = 4 -> {[op |-> "ctlv.rt", a |-> [cls |-> c, p |-> [v |-> v], sfx |-> s, via |-> via]] :
                    c \in {"entity", "flow", "msg"}, v \in {<<1>>, <<1, 2>>, <<1, 2, 3, 4>>, IdFF(8)},
                    s \in {<<>>, <<6, 1, 5>>}, via \in Vias}
                \cup {[op |-> "ctlv.rt", a |-> [cls |-> c, p |-> [v |-> Rep(255, 7)], sfx |-> s, via |-> via]] :
                    c \in {"flow", "msg"}, s \in {<<>>, <<6, 1, 5>>}, via \in Vias}
                \cup {[op |-> "ctlv.rt", a |-> [cls |-> c, p |-> [v |-> v], sfx |-> <<>>, via |-> "unpack"]] :
                    c \in {"flow", "msg"}, v \in {<<>>, Rep(256, 1)}}
    [] i = 5 -> {[op |-> "ctlv.rt", a |-> [cls |-> "fault", p |-> [cond |-> c, handler |-> h], sfx |-> s, via |-> via]] :
                    c \in CondCodes, h \in 1..4, s \in {<<>>, <<4, 1, 19>>}, via \in Vias}
    [] i = 6 -> {[op |-> "ctlv.rt", a |-> [cls |-> "fsreq", p |-> [action |-> act, n1 |-> n1, n2 |-> IF TwoNames(act) THEN n2 ELSE <<>>],
                                          sfx |-> s, via |-> via]] :
                    act \in 0..8, n1 \in NameGrid, n2 \in NameGrid, s \in {<<>>, <<1, 97>>}, via \in Vias}
    [] i = 7 -> {[op |-> "ctlv.rt", a |-> [cls |-> "fsresp",
                                          p |-> [action |-> as[1], status |-> as[2], n1 |-> n1,
                                                 n2 |-> IF TwoNames(as[1]) THEN n2 ELSE <<>>, msg |-> m],
                                          sfx |-> s, via |-> "unpack"]] :
                    as \in {x \in (0..8) \X {0, 1, 2, 3, 15} : FsStatusOk(x[1], x[2])}, n1 \in NameGrid,
                    n2 \in {<<>>, <<98, 50>>}, m \in {<<>>, <<111, 107>>, Rep(60, 33)}, s \in {<<>>, <<1, 97>>}}
                \cup {[op |-> "ctlv.rt", a |-> [cls |-> "fsresp", p |-> [CtlvSample("fsresp") EXCEPT !.action = act, !.n2 = IF TwoNames(act) THEN <<98>> ELSE <<>>,
                                                                   !.status = 0], sfx |-> <<>>, via |-> via]] :
                    act \in 0..8, via \in Vias}
    [] i = 8 -> {[op |-> "ctlv.mismatch", a |-> [cls |-> cf[1], octets |-> CtlvEnc(cf[2], CtlvSample(cf[2])), via |-> via]] :
                    cf \in {x \in CtlvClasses \X CtlvClasses : x[1] # x[2]}, via \in Vias}
    [] i = 9 -> {[op |-> "ctlv.unpack", a |-> [cls |-> c, octets |-> Take(CtlvEnc(c, CtlvSample(c)), k), via |-> "unpack"]] :
                    c \in CtlvClasses, k \in 0..8}
                \cup {[op |-> "ctlv.unpack", a |-> [cls |-> c, octets |-> CtlvEnc(c, CtlvSample(c)) \o <<1, 97, 1, 98, 0>>, via |-> "unpack"]] :
                    c \in CtlvClasses}
                \* the TLV length ends before the second name / the message: what follows the TLV must not be used
                \cup {[op |-> "ctlv.unpack", a |-> [cls |-> "fsreq", octets |-> TlvEnc(0, <<32, 1, 97>>) \o <<1, 98>>, via |-> v]] : v \in Vias}
                \cup {[op |-> "ctlv.unpack", a |-> [cls |-> "fsresp", octets |-> TlvEnc(1, <<0, 1, 97>>) \o <<2, 111, 107>>, via |-> v]] : v \in Vias}
                \cup {[op |-> "ctlv.unpack", a |-> [cls |-> "fsresp", octets |-> TlvEnc(1, <<48, 1, 97>>) \o <<1, 98, 0>>, via |-> "unpack"]]}
                \cup {[op |-> "ctlv.unpack", a |-> [cls |-> "fsreq", octets |-> TlvEnc(0, v), via |-> w]] :
                        v \in {<<0, 1, 97, 9>>, <<32, 1, 97, 1, 98, 7, 7>>, <<80, 0, 0>>}, w \in Vias}
                \* a request whose spare nibble is not zero: if accepted, the decoded object must still report its own packed length
                \cup {[op |-> "ctlv.unpack", a |-> [cls |-> "fsreq", octets |-> TlvEnc(0, <<2 * 16 + sp, 1, 97, 1, 98>>), via |-> v]] : sp \in {1, 5, 15}, v \in Vias}

SizeGrid == {<<0>>, <<1, 0>>, <<255, 255, 255, 255>>, <<1, 0, 0, 0, 0>>, IdFF(8), <<1, 0, 0, 0, 0, 0, 0, 0, 0>>}
SizeFew == {<<0>>, <<1, 2, 3, 4>>}
RespSample(act) == [action |-> act, status |-> 0, n1 |-> <<97, 46, 116>>, n2 |-> IF TwoNames(act) THEN <<98>> ELSE <<>>, msg |-> <<>>]
ParamGrid(kind) ==
  CASE kind = "eof" -> [cond : CondCodes, checksum : {<<0, 0, 0, 0>>, <<1, 2, 3, 4>>}, size : SizeGrid, fault : {<<>>}]
                       \cup [cond : CondCodes \ {0}, checksum : {<<170, 187, 204, 221>>}, size : SizeFew,
                             fault : {<< <<5>> >>, << <<1, 2>> >>, << IdFF(8) >>}]
    [] kind = "finished" -> [cond : CondCodes, delivery : 0..1, status : 0..3, responses : {<<>>}, fault : {<<>>}]
                       \cup [cond : {4, 15}, delivery : {1}, status : {1},
                             responses : {<<RespSample(0)>>, <<RespSample(2), RespSample(5)>>,
                                          <<[RespSample(3) EXCEPT !.status = 2, !.msg = <<110, 111>>]>>},
                             fault : {<<>>, << <<1, 2>> >>}]
                       \cup [cond : {0, 11}, delivery : {0}, status : {2}, responses : {<<>>, <<RespSample(1)>>}, fault : {<<>>}]
    [] kind = "ack" -> [acked : {4, 5}, cond : CondCodes, tstatus : 0..3]
    [] kind = "metadata" -> [closure : 0..1, cktype : ChecksumTypes, size : SizeGrid, srcname : {<<115, 46, 116>>},
                             dstname : {<<100>>}, options : {<<>>}]
                       \cup [closure : {1}, cktype : {3}, size : SizeFew, srcname : NameGrid, dstname : NameGrid,
                             options : {<<>>, <<[t |-> 2, v |-> <<104, 105>>]>>,
                                        <<[t |-> 0, v |-> <<16, 1, 97>>], [t |-> 5, v |-> <<>>], [t |-> 4, v |-> <<67>>]>>}]
    [] kind = "nak" -> [start : SizeGrid, end : SizeFew, segs : {<<>>}]
                       \cup [start : SizeFew, end : SizeGrid, segs : {<< <<<<0>>, <<0>>>> >>, << <<<<0>>, <<128>>>>, <<<<2, 0>>, <<2, 128>>>> >>,
                                                                     << <<IdFF(4), <<1, 0, 0, 0, 0>>>> >>}]
    [] kind = "prompt" -> [resp : 0..1]
    [] kind = "keepalive" -> [progress : SizeGrid \cup {<<1, 2, 3, 4>>, <<1, 2, 3, 4, 5, 6, 7, 8>>}]
    [] kind = "filedata" -> [offset : SizeGrid, data : {<<>>, <<1>>, <<1, 2, 3, 4, 5>>}, meta : {<<>>}]
                       \cup [offset : SizeFew, data : {<<>>, <<6, 1, 5>>, Rep(300, 90)},
                             meta : {<<>>, <<[state |-> 0, md |-> <<>>]>>, <<[state |-> 3, md |-> <<9>>]>>,
                                     <<[state |-> 1, md |-> Rep(63, 7)]>>, <<[state |-> 2, md |-> Rep(64, 7)]>>}]
ParamFew(kind) ==
  CASE kind = "eof" -> {[cond |-> 0, checksum |-> <<1, 2, 3, 4>>, size |-> <<1, 0>>, fault |-> <<>>],
                        [cond |-> 6, checksum |-> <<1, 2, 3, 4>>, size |-> <<9>>, fault |-> << <<1, 2>> >>]}
    [] kind = "finished" -> {[cond |-> 0, delivery |-> 0, status |-> 2, responses |-> <<>>, fault |-> <<>>],
                             [cond |-> 4, delivery |-> 1, status |-> 1, responses |-> <<RespSample(2)>>, fault |-> << <<7>> >>]}
    [] kind = "ack" -> {[acked |-> 4, cond |-> 0, tstatus |-> 1], [acked |-> 5, cond |-> 15, tstatus |-> 2]}
    [] kind = "metadata" -> {[closure |-> 1, cktype |-> 3, size |-> <<2, 0>>, srcname |-> <<97>>, dstname |-> <<98, 99>>,
                              options |-> <<>>],
                             [closure |-> 0, cktype |-> 15, size |-> <<0>>, srcname |-> <<>>, dstname |-> <<>>,
                              options |-> <<[t |-> 2, v |-> <<104>>]>>]}
    [] kind = "nak" -> {[start |-> <<0>>, end |-> <<2, 128>>, segs |-> <<>>],
                        [start |-> <<0>>, end |-> <<2, 128>>, segs |-> << <<<<0>>, <<128>>>>, <<<<2, 0>>, <<2, 128>>>> >>]}
    [] kind = "prompt" -> {[resp |-> 0], [resp |-> 1]}
    [] kind = "keepalive" -> {[progress |-> <<1, 2, 3, 4>>], [progress |-> <<0>>]}
    [] kind = "filedata" -> {[offset |-> <<1, 0>>, data |-> <<1, 2, 3>>, meta |-> <<>>],
                             [offset |-> <<0>>, data |-> <<>>, meta |-> <<[state |-> 3, md |-> <<9, 9>>]>>]}

PduNParts == 16
PduGridPart(i) ==
  LET kind == KindOrder[((i - 1) % 8) + 1] IN
  IF i <= 8 THEN {[op |-> "pdu.rt", a |-> [kind |-> kind, cfg |-> c, p |-> p, sfx |-> <<>>, via |-> "setter"]] :
                    c \in CfgFew, p \in {q \in ParamGrid(kind) : PduOk(kind, CfgOf(0, 0, 1, 1, 0, 0), q) /\ kind \in {"eof", "finished", "metadata", "nak", "filedata"}}}
                 \cup {[op |-> "pdu.rt", a |-> [kind |-> kind, cfg |-> c, p |-> p, sfx |-> <<>>]] : c \in CfgAllS, p \in ParamFew(kind)}
  ELSE {[op |-> "pdu.rt", a |-> [kind |-> kind, cfg |-> c, p |-> p, sfx |-> <<>>]] : c \in CfgFew, p \in ParamGrid(kind)}

FacNParts == 9
FacGridPart(i) ==
  IF i <= 8 THEN {[op |-> "pdu.fac", a |-> [kind |-> KindOrder[i], cfg |-> c, p |-> p, sfx |-> <<>>]] :
                    c \in CfgAllS, p \in ParamFew(KindOrder[i])}
  ELSE UNION {{[op |-> "holder.matrix", a |-> [kind |-> KindOrder[k], cfg |-> CfgOf(1, 0, 2, 1, 0, 0), p |-> p]] :
                 p \in ParamFew(KindOrder[k])} : k \in 1..8}
       \cup {[op |-> "fd.maxseg", a |-> [cfg |-> c, maxlen |-> n, meta |-> m]] :
               c \in CfgFew, n \in {0, 7, 8, 12, 13, 14, 20, 21, 22, 23, 24, 25, 26, 27, 28, 100, 4096, 65535},
               m \in {<<>>, <<[state |-> 0, md |-> <<>>]>>, <<[state |-> 1, md |-> <<1, 2, 3>>]>>}}
       \cup {[op |-> "nak.maxsegs", a |-> [cfg |-> c, maxlen |-> n]] :
               c \in CfgFew, n \in {0, 7, 15, 16, 17, 18, 24, 25, 26, 32, 33, 34, 35, 36, 40, 41, 42, 43, 44, 100, 4096}}

CfdpLaw(op, a) ==
  CASE op = "cfdphdr.rt" -> CfdpHdrBuildable(a.h) => CfdpLaw_HdrRT(a.h, a.sfx)
    [] op = "cfdphdr.unpack" -> LET d == CfdpHdrDec(a.octets) IN d.ok => (CfdpHdrEnc(d.v) = Take(a.octets, d.n) /\ CfdpHdrBuildable(d.v))
    [] op = "lv.rt" -> Len(a.v) <= 255 => LvDec(LvEnc(a.v) \o a.sfx) = Acc(a.v, Len(a.v) + 1)
    [] op = "tlv.rt" -> Len(a.v) <= 255 => TlvDec(TlvEnc(a.t, a.v) \o a.sfx) = Acc([t |-> a.t, v |-> a.v], Len(a.v) + 2)
    [] op = "ctlv.rt" -> CtlvBuildable(a.cls, a.p) =>
                           (CtlvDec(a.cls, CtlvEnc(a.cls, a.p) \o a.sfx) = Acc(a.p, Len(CtlvEnc(a.cls, a.p)))
                            /\ \A c \in CtlvClasses \ {a.cls} : CtlvDec(c, CtlvEnc(a.cls, a.p)) = Rej(<<"tlvtype">>))
    [] op \in {"pdu.rt", "pdu.fac"} -> PduOk(a.kind, a.cfg, a.p) =>
                           (CfdpLaw_PduRT(a.kind, a.cfg, a.p) /\ CfdpLaw_PduSuffix(a.kind, a.cfg, a.p, <<0, 1>>)
                            /\ CfdpLaw_PduPrefix(a.kind, a.cfg, a.p))
    [] OTHER -> TRUE
=============================================================================
