------------------------------ MODULE Countdown ------------------------------
(***************************************************************************)
(* spacepackets.countdown.Countdown over a virtual millisecond clock       *)
(* (growth beyond the listed properties).  One action per public call;     *)
(* Tick advances the clock.  The observers return                          *)
(*   timed_out  = now - start >= timeout        busy = ~timed_out          *)
(*   remaining  = max(0, start + timeout - now)                            *)
(* time_out() forces expiry by moving the start to clock zero.             *)
(***************************************************************************)
EXTENDS Integers, TLC

CONSTANTS Base,       \* clock value at the beginning (a real clock is far from zero)
          Ticks,      \* possible clock advances
          Timeouts,   \* timeouts that may be set (milliseconds)
          Horizon     \* model bound on the clock

VARIABLES now, start, timeout, ev
vars == <<now, start, timeout, ev>>
View == <<now, start, timeout>>

TimedOut == now - start >= timeout
Remaining == IF start + timeout < now THEN 0 ELSE start + timeout - now

Init == /\ now = Base
        /\ \/ (start = 0 /\ timeout = 0)                                  \* Countdown(None)
           \/ (\E t \in Timeouts : start = Base /\ timeout = t)             \* Countdown(timedelta)
        /\ ev = [a |-> "init"]

Tick == \E d \in Ticks : now + d <= Horizon /\ now' = now + d /\ ev' = [a |-> "tick", d |-> d] /\ UNCHANGED <<start, timeout>>
SetTimeout == \E t \in Timeouts : timeout' = t /\ ev' = [a |-> "set_timeout", t |-> t] /\ UNCHANGED <<now, start>>
Start == start' = now /\ ev' = [a |-> "start"] /\ UNCHANGED <<now, timeout>>
Reset == \/ (start' = now /\ ev' = [a |-> "reset", t |-> -1] /\ UNCHANGED <<now, timeout>>)
         \/ (\E t \in Timeouts : start' = now /\ timeout' = t /\ ev' = [a |-> "reset", t |-> t] /\ UNCHANGED now)
Expire == start' = 0 /\ ev' = [a |-> "time_out"] /\ UNCHANGED <<now, timeout>>
Observe == ev' = [a |-> "observe", timed_out |-> TimedOut, busy |-> ~TimedOut, remaining |-> Remaining, timeout_ms |-> timeout]
           /\ UNCHANGED <<now, start, timeout>>

Next == Tick \/ SetTimeout \/ Start \/ Reset \/ Expire \/ Observe
Spec == Init /\ [][Next]_vars

\* expiry is permanent while only the clock moves
Act_StaysExpired == [][(TimedOut /\ ev'.a = "tick") => TimedOut']_vars
\* a (re)started countdown with a positive timeout is busy exactly until the timeout has elapsed
Inv_BusyWindow == (start <= now /\ start > 0) => (TimedOut <=> now >= start + timeout)
Inv_Remaining == Remaining >= 0 /\ (TimedOut => Remaining = 0) /\ (~TimedOut => Remaining = start + timeout - now)
\* forcing expiry works on any realistic clock
Act_ExpireWorks == [][(ev'.a = "time_out" /\ now >= timeout) => TimedOut']_vars
=============================================================================
