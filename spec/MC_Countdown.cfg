SPECIFICATION Spec
CHECK_DEADLOCK FALSE
VIEW View
CONSTANT Base = 1000
CONSTANT Ticks = {1, 49, 50, 51}
CONSTANT Timeouts = {0, 50, 100}
CONSTANT Horizon = 1160
INVARIANT Inv_BusyWindow
INVARIANT Inv_Remaining
PROPERTY Act_StaysExpired
PROPERTY Act_ExpireWorks
ACTION_CONSTRAINT Emit
