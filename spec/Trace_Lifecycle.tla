--------------------------- MODULE Trace_Lifecycle ---------------------------
(***************************************************************************)
(* Trace validation of recorded object histories (C11): each event is one  *)
(* public call at its return (construction, a setter, pack, reload) with   *)
(* the observations taken from the real object afterwards (packed octets,  *)
(* reported length, kept length field).  The specification applies the     *)
(* same event to its own state and compares.  Total: mismatches are        *)
(* reported per event and validation continues.                            *)
(***************************************************************************)
EXTENDS Lifecycle, Json, IOUtils

Tr == ndJsonDeserialize(IOEnv.TRACE_FILE)

VARIABLES l, kind, o

Bad(e, why) == PrintT("BAD " \o ToString(e.id) \o " " \o why)

Step(e) == IF e.op = "init" THEN [k |-> e.kind, o |-> LcNorm(e.kind, LcCreate(e.kind, e.cfg, e.val))]
           ELSE [k |-> kind, o |-> LcNorm(kind, LcApply(kind, o, e.ev))]

TraceInit == l = 1 /\ kind = "none" /\ o = [none |-> 0]

TraceNext ==
  /\ l <= Len(Tr)
  /\ LET e == Tr[l]
         s == Step(e)
         x == LcObs(s.k, s.o)
         \* a CFDP data field cannot exceed 65 535 octets: a setter (or constructor) leading there must be refused
         over == LcIsPdu(s.k) /\ s.o.cached > 65535
     IN /\ (IF over THEN (IF "exc" \in DOMAIN e.obs THEN TRUE ELSE Bad(e, "oversize-accepted"))
            ELSE IF "exc" \in DOMAIN e.obs THEN Bad(e, "exc")
            ELSE /\ (IF x.octets = e.obs.octets THEN TRUE ELSE Bad(e, "octets"))
                 /\ (IF x.plen = e.obs.plen THEN TRUE ELSE Bad(e, "len.reported"))
                 /\ (IF x.cached = e.obs.cached THEN TRUE ELSE Bad(e, "len.field"))
                 /\ (IF e.obs.fresh /\ e.obs.again /\ e.obs.eq /\ e.obs.caller /\ e.obs.spview /\ e.obs.sibling THEN TRUE ELSE Bad(e, "purity")))
        /\ kind' = s.k /\ o' = s.o
  /\ (l = Len(Tr) => PrintT("DONE " \o ToString(l)))
  /\ l' = l + 1

TraceSpec == TraceInit /\ [][TraceNext]_<<l, kind, o>>
=============================================================================
