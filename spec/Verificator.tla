----------------------------- MODULE Verificator -----------------------------
(***************************************************************************)
(* The PUS verification tracker (PusVerificator): telecommands are         *)
(* registered, service-1 reports (subservice 1..8) are fed in any order,   *)
(* entries are removed.  One action per public call; the record kept per   *)
(* telecommand is [all, acc, sta, stp, steps, cmp] with status values      *)
(* UNSET = -1, FAIL = 0, OK = 1 (the values of the library's StatusField). *)
(*                                                                         *)
(* Documented transition function:                                         *)
(*  1 acceptance success : acc := OK                                       *)
(*  2 acceptance failure : acc := FAIL, finished                           *)
(*  3 start success      : sta := OK                                       *)
(*  4 start failure      : sta := FAIL, finished if acceptance was seen    *)
(*  5 step success       : stp := OK unless already set; step id appended  *)
(*  6 step failure       : stp := FAIL; step id appended; finished if      *)
(*                         acceptance and start were seen                  *)
(*  7 / 8 completion     : cmp := OK / FAIL; finished if acceptance and    *)
(*                         start were seen                                 *)
(* The result's completed flag is set exactly for 2, 4, 6, 7, 8.           *)
(***************************************************************************)
EXTENDS Integers, Sequences, FiniteSets, TLC

CONSTANTS TCs,        \* set of telecommand indices 1..n
          StepIds,    \* step identifiers used by step reports
          MaxSteps    \* bound on the length of a step list (model bound only)

VARIABLES tab,        \* TC -> Absent or status record
          ev          \* last call and its result (observation; hidden by VIEW)

vars == <<tab, ev>>

UNSET == -1
FAIL  == 0
OK    == 1
Absent == [absent |-> TRUE]
Fresh  == [all |-> FALSE, acc |-> UNSET, sta |-> UNSET, stp |-> UNSET, steps |-> <<>>, cmp |-> UNSET]
Known(t) == tab[t] # Absent

AfterStep(s) == IF s.acc # UNSET /\ s.sta # UNSET THEN [s EXCEPT !.all = TRUE] ELSE s

Upd(s, sub, k) ==
  CASE sub = 1 -> [s EXCEPT !.acc = OK]
    [] sub = 2 -> [s EXCEPT !.acc = FAIL, !.all = TRUE]
    [] sub = 3 -> [s EXCEPT !.sta = OK]
    [] sub = 4 -> [(IF s.acc # UNSET THEN [s EXCEPT !.all = TRUE] ELSE s) EXCEPT !.sta = FAIL]
    [] sub = 5 -> [s EXCEPT !.stp = IF s.stp = UNSET THEN OK ELSE s.stp, !.steps = Append(s.steps, k)]
    [] sub = 6 -> [AfterStep(s) EXCEPT !.stp = FAIL, !.steps = Append(s.steps, k)]
    [] sub = 7 -> [AfterStep(s) EXCEPT !.cmp = OK]
    [] sub = 8 -> [AfterStep(s) EXCEPT !.cmp = FAIL]

CompletedFlag(sub) == sub \in {2, 4, 6, 7, 8}

Init == tab = [t \in TCs |-> Absent] /\ ev = [a |-> "init"]

AddTc(t) == /\ tab' = IF Known(t) THEN tab ELSE [tab EXCEPT ![t] = Fresh]
            /\ ev' = [a |-> "add_tc", t |-> t, ret |-> ~Known(t)]

AddTm(t, sub, k) ==
  /\ (sub \in {5, 6} /\ Known(t)) => Len(tab[t].steps) < MaxSteps
  /\ (sub \notin {5, 6}) => k = 0
  /\ IF Known(t)
     THEN /\ tab' = [tab EXCEPT ![t] = Upd(tab[t], sub, k)]
          /\ ev' = [a |-> "add_tm", t |-> t, sub |-> sub, k |-> k, ret |-> [completed |-> CompletedFlag(sub)]]
     ELSE /\ tab' = tab
          /\ ev' = [a |-> "add_tm", t |-> t, sub |-> sub, k |-> k, ret |-> [none |-> TRUE]]

RemoveEntry(t) == /\ tab' = [tab EXCEPT ![t] = Absent]
                  /\ ev' = [a |-> "remove_entry", t |-> t, ret |-> Known(t)]

RemoveCompleted == /\ tab' = [t \in TCs |-> IF Known(t) /\ tab[t].all THEN Absent ELSE tab[t]]
                   /\ ev' = [a |-> "remove_completed"]

AddTcAny == \E t \in TCs : AddTc(t)
AddTmAny == \E t \in TCs, sub \in 1..8, k \in StepIds \cup {0} :
               /\ (sub \in {5, 6} => k \in StepIds)
               /\ AddTm(t, sub, k)
RemoveEntryAny == \E t \in TCs : RemoveEntry(t)

Next == AddTcAny \/ AddTmAny \/ RemoveEntryAny \/ RemoveCompleted

Spec == Init /\ [][Next]_vars
View == tab

(***************************************************************************)
(* Properties (C16)                                                        *)
(***************************************************************************)
TypeOK == \A t \in TCs : tab[t] = Absent \/
            /\ tab[t].all \in BOOLEAN
            /\ {tab[t].acc, tab[t].sta, tab[t].stp, tab[t].cmp} \subseteq {UNSET, FAIL, OK}
\* 'all verifications received' never reverts while the entry exists
Act_NeverReverts == [][\A t \in TCs : (Known(t) /\ tab[t].all /\ tab'[t] # Absent) => tab'[t].all]_vars
\* a failed step is never overwritten by a later success
Act_FailedStepSticky == [][\A t \in TCs : (Known(t) /\ tab[t].stp = FAIL /\ tab'[t] # Absent) => tab'[t].stp = FAIL]_vars
\* a report changes only its own telecommand's record
Act_Isolation == [][ev'.a = "add_tm" => \A u \in TCs \ {ev'.t} : tab'[u] = tab[u]]_vars
\* unknown request ids: no result, no effect
Act_UnknownNoEffect == [][(ev'.a = "add_tm" /\ ~Known(ev'.t)) => (tab' = tab /\ ev'.ret = [none |-> TRUE])]_vars
\* duplicates are refused and change nothing
Act_DuplicateRefused == [][(ev'.a = "add_tc" /\ Known(ev'.t)) => (tab' = tab /\ ev'.ret = FALSE)]_vars
\* the step list only grows, by exactly the reported step
Act_StepList == [][\A t \in TCs : (Known(t) /\ tab'[t] # Absent) =>
                     \/ tab'[t].steps = tab[t].steps
                     \/ (ev'.a = "add_tm" /\ ev'.t = t /\ ev'.sub \in {5, 6}
                         /\ tab'[t].steps = Append(tab[t].steps, ev'.k))]_vars
\* removing completed entries removes exactly those marked finished
Act_RemoveCompletedExact == [][ev'.a = "remove_completed" =>
                                \A t \in TCs : tab'[t] = (IF Known(t) /\ tab[t].all THEN Absent ELSE tab[t])]_vars
Act_RemoveEntry == [][ev'.a = "remove_entry" =>
                        /\ tab'[ev'.t] = Absent /\ ev'.ret = Known(ev'.t)
                        /\ \A u \in TCs \ {ev'.t} : tab'[u] = tab[u]]_vars
\* finished is set exactly when the state machine says so: acceptance failure; start failure
\* once acceptance was seen; step failure / completion once acceptance and start were seen
Justified(s, sub) == \/ sub = 2
                     \/ (sub = 4 /\ s.acc # UNSET)
                     \/ (sub \in {6, 7, 8} /\ s.acc # UNSET /\ s.sta # UNSET)
Act_AllExact == [][(ev'.a = "add_tm" /\ Known(ev'.t)) =>
                     (tab'[ev'.t].all <=> (tab[ev'.t].all \/ Justified(tab[ev'.t], ev'.sub)))]_vars
Act_CompletedFlag == [][(ev'.a = "add_tm" /\ Known(ev'.t)) =>
                          (ev'.ret.completed <=> ev'.sub \in {2, 4, 6, 7, 8})]_vars
Inv_StepStatus == \A t \in TCs : Known(t) => ((tab[t].stp = UNSET) <=> (tab[t].steps = <<>>))
=============================================================================
