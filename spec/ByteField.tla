------------------------------ MODULE ByteField ------------------------------
(***************************************************************************)
(* Unsigned byte fields of width 0, 1, 2, 4 or 8 octets and the integer /  *)
(* octet conversion helpers.  Integers travel as sign + big-endian         *)
(* magnitude octets (any length) because they may exceed 31 bits; a field  *)
(* is [w, v] with v an octet string of exactly w octets.                   *)
(***************************************************************************)
EXTENDS Octets

BfWidthOk(w) == w \in {0, 1, 2, 4, 8}

\* abstract integer: [neg |-> BOOLEAN, mag |-> octets]; zero has an all-zero (or empty) magnitude
IntIsNeg(x) == x.neg /\ ~AllZero(x.mag)
IntFitsU(x, w) == ~IntIsNeg(x) /\ FitsWidth(x.mag, w)

HexDigit(n) == IF n < 10 THEN 48 + n ELSE 87 + n            \* ASCII 0-9 a-f
HexView(v) == <<48, 120>> \o FoldLeft(LAMBDA acc, b : acc \o <<HexDigit(b \div 16), HexDigit(b % 16)>>, <<>>, v)

BfViews(w, v) == [w |-> w, octets |-> v, int |-> v, len |-> w, hex |-> IF w = 0 THEN <<>> ELSE HexView(v)]

\* two's complement, octet-wise
Complement(s) == [i \in 1..Len(s) |-> 255 - s[i]]
RECURSIVE IncOct(_)
IncOct(s) == IF s = <<>> THEN <<>>
             ELSE IF s[Len(s)] < 255 THEN [s EXCEPT ![Len(s)] = @ + 1]
             ELSE Append(IncOct(SubSeq(s, 1, Len(s) - 1)), 0)
TwosComplement(x, w) == LET m == ToWidth(x.mag, w) IN IF IntIsNeg(x) THEN IncOct(Complement(m)) ELSE m
\* |x| <= 2^(8w-1) - 1
IntFitsS(x, w) == FitsWidth(x.mag, w) /\ (w = 0 \/ ToWidth(x.mag, w)[1] < 128)

BfOps == {"bf.new", "bf.from_bytes", "bf.set", "bf.eq", "ibc.unsigned", "ibc.signed"}

BfExp(op, a) ==
  CASE op = "bf.new" ->
         IF ~BfWidthOk(a.w) \/ ~IntFitsU(a.x, a.w) THEN ExpRej(<<"value">>)
         ELSE LET v == ToWidth(a.x.mag, a.w) IN
              [views |-> BfViews(a.w, v), back |-> IF a.w = 0 THEN <<>> ELSE <<BfViews(a.w, v)>>, eq |-> TRUE, hashok |-> TRUE]
    [] op = "bf.from_bytes" ->
         IF a.route = "base"
         THEN IF Len(a.octets) \notin {1, 2, 4, 8} THEN ExpRej(<<"value">>)
              ELSE [views |-> BfViews(Len(a.octets), a.octets)]
         ELSE IF a.w \notin {1, 2, 4, 8} \/ Len(a.octets) < a.w THEN ExpRej(<<"value">>)
              ELSE [views |-> BfViews(a.w, Take(a.octets, a.w))]
    [] op = "bf.set" ->
         \* a refused assignment leaves all views as they were ("after")
         LET refused == [rej |-> <<"value">>, after |-> BfViews(a.w, a.v0)] IN
         IF a.by = "int"
         THEN IF ~IntFitsU(a.x, a.w) THEN refused ELSE [views |-> BfViews(a.w, ToWidth(a.x.mag, a.w))]
         ELSE IF Len(a.octets) < a.w THEN refused ELSE [views |-> BfViews(a.w, Take(a.octets, a.w))]
    [] op = "bf.eq" ->
         [eq |-> (a.w1 = a.w2 /\ a.v1 = a.v2), hashok |-> TRUE]
    [] op = "ibc.unsigned" ->
         \* width 0 with a non-zero value: returning no octets or refusing are both left unjudged
         IF a.w = 0 /\ ~AllZero(a.x.mag) /\ ~a.x.neg THEN [anyof |-> <<[octets |-> <<>>], ExpRej(<<"value">>)>>]
         ELSE IF ~BfWidthOk(a.w) \/ ~IntFitsU(a.x, a.w) THEN ExpRej(<<"value">>) ELSE [octets |-> ToWidth(a.x.mag, a.w)]
    [] op = "ibc.signed" ->
         IF ~BfWidthOk(a.w) THEN ExpRej(<<"value">>) ELSE [octets |-> TwosComplement(a.x, a.w)]

\* laws: the views are coherent and the conversions invert each other
BfLaw(op, a) ==
  CASE op = "bf.new" -> (BfWidthOk(a.w) /\ IntFitsU(a.x, a.w)) =>
                           LET v == ToWidth(a.x.mag, a.w) IN
                           /\ Len(v) = a.w /\ Len(HexView(v)) = 2 + 2 * a.w
                           /\ (FitsInt(v) /\ FitsInt(a.x.mag) => BEval(v) = BEval(a.x.mag))
    [] op = "ibc.signed" -> (BfWidthOk(a.w) /\ IntFitsS(a.x, a.w) /\ a.w > 0) =>
                           LET t == TwosComplement(a.x, a.w) IN
                           /\ Len(t) = a.w
                           /\ (t[1] >= 128) = IntIsNeg(a.x)
                           /\ (IntIsNeg(a.x) => IncOct(Complement(t)) = ToWidth(a.x.mag, a.w))
    [] OTHER -> TRUE

(***************************************************************************)
(* Bounded grids                                                           *)
(***************************************************************************)
Pos(m) == [neg |-> FALSE, mag |-> m]
Neg(m) == [neg |-> TRUE, mag |-> m]
BfMagGrid(w) ==
  CASE w = 0 -> {<<>>, <<0>>}
    [] w = 1 -> {<<b>> : b \in 0..255}
    [] w = 2 -> {<<a, b>> : a \in {0, 1, 127, 128, 255}, b \in {0, 1, 127, 128, 255}}
    [] w = 4 -> {<<0, 0, 0, 0>>, <<0, 0, 0, 1>>, <<0, 1, 0, 0>>, <<127, 255, 255, 255>>, <<128, 0, 0, 0>>, <<255, 255, 255, 255>>, <<1, 2, 3, 4>>}
    [] w = 8 -> {Zeros(8), <<0, 0, 0, 0, 0, 0, 0, 1>>, <<0, 0, 0, 1, 0, 0, 0, 0>>, <<127, 255, 255, 255, 255, 255, 255, 255>>,
                 <<128, 0, 0, 0, 0, 0, 0, 0>>, Rep(8, 255), <<1, 2, 3, 4, 5, 6, 7, 8>>}
BfTooBig(w) == {<<1>> \o Zeros(w), <<1>> \o Zeros(w) \o <<>>, <<2>> \o Rep(w, 255), <<1, 0>> \o Zeros(w)}

BfNParts == 6
BfGridPart(i) ==
  CASE i = 1 -> UNION {{[op |-> "bf.new", a |-> [w |-> w, x |-> Pos(m), via |-> v]] : m \in BfMagGrid(w),
                          v \in (IF w = 0 THEN {"ctor", "cls"} ELSE {"ctor", "gen", "cls"})} : w \in {0, 1, 2, 4, 8}}
    \* refusals: negative, too large, unsupported width
    [] i = 2 -> UNION {{[op |-> "bf.new", a |-> [w |-> w, x |-> x, via |-> "ctor"]] :
                          x \in {Neg(<<1>>), Neg(Rep(w + 1, 255)), Neg(<<128>>)} \cup {Pos(m) : m \in BfTooBig(w)}} : w \in {0, 1, 2, 4, 8}}
                \cup {[op |-> "bf.new", a |-> [w |-> w, x |-> Pos(<<1>>), via |-> v]] : w \in {3, 5, 6, 7, 9, 16}, v \in {"ctor", "gen"}}
                \cup UNION {{[op |-> "bf.new", a |-> [w |-> w, x |-> x, via |-> v]] : x \in {Neg(<<1>>), Pos(<<1>> \o Zeros(w))}, v \in {"gen", "cls"}} :
                               w \in {1, 2, 4, 8}}
    [] i = 3 -> {[op |-> "bf.from_bytes", a |-> [route |-> "base", w |-> 0, octets |-> Take(<<1, 2, 3, 4, 5, 6, 7, 8, 9, 10>>, k)]] : k \in 0..10}
                \cup {[op |-> "bf.from_bytes", a |-> [route |-> r, w |-> w, octets |-> Take(<<255, 254, 3, 4, 5, 6, 7, 128, 9, 10>>, k)]] :
                        r \in {"gen", "cls"}, w \in {1, 2, 4, 8}, k \in 0..10}
                \cup {[op |-> "bf.from_bytes", a |-> [route |-> "gen", w |-> w, octets |-> <<1, 2, 3, 4, 5, 6, 7, 8, 9>>]] : w \in {0, 3, 5, 16}}
    [] i = 4 -> UNION {{[op |-> "bf.set", a |-> [w |-> w, v0 |-> ToWidth(<<7>>, w), by |-> "int", x |-> x, octets |-> <<>>]] :
                          x \in {Pos(m) : m \in BfMagGrid(w) \cup BfTooBig(w)} \cup {Neg(<<1>>)}} : w \in {1, 2, 4, 8}}
                \cup UNION {{[op |-> "bf.set", a |-> [w |-> w, v0 |-> ToWidth(<<7>>, w), by |-> "bytes", x |-> Pos(<<>>),
                                                    octets |-> Take(<<255, 254, 3, 4, 5, 6, 7, 128, 9, 10>>, k)]] : k \in 0..10} : w \in {1, 2, 4, 8}}
    [] i = 5 -> {[op |-> "bf.eq", a |-> [w1 |-> w1, v1 |-> ToWidth(m1, w1), w2 |-> w2, v2 |-> ToWidth(m2, w2)]] :
                    w1 \in {0, 1, 2, 4, 8}, w2 \in {0, 1, 2, 4, 8}, m1 \in {<<>>, <<1>>}, m2 \in {<<>>, <<1>>, <<2>>}}
    [] i = 6 -> UNION {{[op |-> "ibc.unsigned", a |-> [w |-> w, x |-> Pos(m)]] : m \in BfMagGrid(w) \cup BfTooBig(w)} : w \in {0, 1, 2, 4, 8}}
                \cup UNION {{[op |-> "ibc.signed", a |-> [w |-> w, x |-> x]] :
                               x \in {y \in {Pos(m) : m \in BfMagGrid(w)} \cup {Neg(m) : m \in BfMagGrid(w)} : IntFitsS(y, w)}} : w \in {0, 1, 2, 4, 8}}
                \cup {[op |-> o, a |-> [w |-> w, x |-> Pos(<<1>>)]] : o \in {"ibc.unsigned", "ibc.signed"}, w \in {3, 5, 6, 7, 9}}
=============================================================================
