SPECIFICATION Spec
CHECK_DEADLOCK FALSE
VIEW View
INVARIANT Inv_LenTracks
INVARIANT Inv_Fresh
INVARIANT Inv_ReloadStable
INVARIANT EmitInit
PROPERTY Act_PackPure
PROPERTY Act_SetLocal
ACTION_CONSTRAINT Emit
