---------------------------- MODULE MC_Countdown ----------------------------
EXTENDS Countdown, Json, Sequences
Emit == PrintT("EMIT " \o ToJson([src |-> [now |-> now, start |-> start, timeout |-> timeout], ev |-> ev',
                                  dst |-> [now |-> now', start |-> start', timeout |-> timeout']]))
=============================================================================
