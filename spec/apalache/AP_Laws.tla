------------------------------ MODULE AP_Laws ------------------------------
(***************************************************************************)
(* Symbolic checks (apalache-mc check --length=0 --inv=Law_X): Init leaves *)
(* every field unconstrained within its full range; each Law_X is the      *)
(* round-trip / layout law of one format for ALL such values.              *)
(***************************************************************************)
EXTENDS AP_Layout

VARIABLES
  \* @type: Int;
  a,
  \* @type: Int;
  b,
  \* @type: Int;
  c,
  \* @type: Int;
  d,
  \* @type: Int;
  e,
  \* @type: Int;
  f,
  \* @type: Int;
  g,
  \* @type: Int;
  h,
  \* @type: Int;
  i,
  \* @type: Int;
  j

Init == /\ a \in 0..18446744073709551615 /\ b \in 0..65535 /\ c \in 0..65535 /\ d \in 0..2047 /\ e \in 0..16383
        /\ f \in 0..255 /\ g \in 0..255 /\ h \in 0..15 /\ i \in 0..7 /\ j \in 0..1
Next == UNCHANGED <<a, b, c, d, e, f, g, h, i, j>>

\* @type: Seq(Int) => Bool;
Octets(s) == \A k \in DOMAIN s : s[k] \in 0..255

\* C01: all 2^48 headers (ver = i, type = j, shf = h % 2, apid = d, flags = g % 4, count = e, dlen = b)
Law_SpacePacket ==
  LET w == SpEnc(i, j, h % 2, d, g % 4, e, b) IN
  /\ Len(w) = 6 /\ Octets(w)
  /\ SpVer(w) = i /\ SpType(w) = j /\ SpShf(w) = h % 2 /\ SpApid(w) = d /\ SpFlags(w) = g % 4 /\ SpCount(w) = e /\ SpDlen(w) = b
  /\ w[1] * 256 + w[2] = i * 8192 + SpPidRaw(j, h % 2, d)
  /\ w[3] * 256 + w[4] = SpPscRaw(g % 4, e)
  /\ SpPidRaw(j, h % 2, d) \in 0..8191 /\ SpPscRaw(g % 4, e) \in 0..65535
\* ... and every 6-octet string decodes to in-range fields that encode back to it (b, c, a % 65536 = the three words)
Law_SpacePacketOnto ==
  LET w == U16(b) \o U16(c) \o U16(a % 65536) IN
  SpEnc(SpVer(w), SpType(w), SpShf(w), SpApid(w), SpFlags(w), SpCount(w), SpDlen(w)) = w

\* C02 / C03: secondary headers (ack / timeref = h, service = f, subservice = g, source / msgcnt = b, dest = c)
Law_PusSec ==
  LET t == TcSec(h, f, g, b)  m == TmSec(h, f, g, b, c) IN
  /\ Len(t) = 5 /\ Octets(t) /\ Bits(t[1], 4, 4) = 2 /\ Bits(t[1], 0, 4) = h /\ t[2] = f /\ t[3] = g /\ t[4] * 256 + t[5] = b
  /\ Len(m) = 7 /\ Octets(m) /\ Bits(m[1], 4, 4) = 2 /\ Bits(m[1], 0, 4) = h /\ m[2] = f /\ m[3] = g
  /\ m[4] * 256 + m[5] = b /\ m[6] * 256 + m[7] = c

\* C05: the fixed part for all flag combinations, all lengths, all four width codes each
Law_CfdpFixed ==
  LET type == j  dir == h % 2  mode == (h \div 2) % 2  crc == (h \div 4) % 2  large == (h \div 8) % 2
      segctrl == g % 2  segmeta == (g \div 2) % 2
      wi == (g \div 4) % 4  ws == (g \div 16) % 4
      idw == IF wi = 0 THEN 1 ELSE IF wi = 1 THEN 2 ELSE IF wi = 2 THEN 4 ELSE 8
      seqw == IF ws = 0 THEN 1 ELSE IF ws = 1 THEN 2 ELSE IF ws = 2 THEN 4 ELSE 8
      w == CfdpFixed(type, dir, mode, crc, large, b, segctrl, idw, segmeta, seqw) IN
  /\ Len(w) = 4 /\ Octets(w)
  /\ Bits(w[1], 5, 3) = 1 /\ Bits(w[1], 4, 1) = type /\ Bits(w[1], 3, 1) = dir /\ Bits(w[1], 2, 1) = mode
  /\ Bits(w[1], 1, 1) = crc /\ Bits(w[1], 0, 1) = large /\ w[2] * 256 + w[3] = b
  /\ Bits(w[4], 7, 1) = segctrl /\ Bits(w[4], 4, 3) + 1 = idw /\ Bits(w[4], 3, 1) = segmeta /\ Bits(w[4], 0, 3) + 1 = seqw
  /\ CfdpHdrLen(idw, seqw) \in 7..28

\* C06 / C07 / C08: directive parameter octets (cond = h, delivery = j, status = i % 4, closure = j, cktype = h, ...)
Law_PduOctets ==
  /\ EofOctet(h) \in 0..255 /\ Bits(EofOctet(h), 4, 4) = h
  /\ FinOctet(h, j, i % 4) \in 0..255 /\ Bits(FinOctet(h, j, i % 4), 4, 4) = h /\ Bits(FinOctet(h, j, i % 4), 2, 1) = j
  /\ Bits(FinOctet(h, j, i % 4), 0, 2) = i % 4
  /\ LET k == AckOctets(4 + j, h, i % 4) IN Bits(k[1], 4, 4) = 4 + j /\ Bits(k[1], 0, 4) = j /\ Bits(k[2], 4, 4) = h /\ Bits(k[2], 0, 2) = i % 4
  /\ MetaOctet(j, h) \in 0..255 /\ Bits(MetaOctet(j, h), 6, 1) = j /\ Bits(MetaOctet(j, h), 0, 4) = h
  /\ FdMetaOctet(i % 4, f % 64) \in 0..255 /\ Bits(FdMetaOctet(i % 4, f % 64), 6, 2) = i % 4 /\ Bits(FdMetaOctet(i % 4, f % 64), 0, 6) = f % 64
  /\ FsRespOctet(h, g % 16) \in 0..255 /\ Bits(FsRespOctet(h, g % 16), 4, 4) = h /\ Bits(FsRespOctet(h, g % 16), 0, 4) = g % 16

\* C06 / C07 / C20: big-endian 32- and 64-bit fields over their whole range
Law_BigEndian32 ==
  /\ LET v == a % 4294967296 IN Len(U32(v)) = 4 /\ Octets(U32(v)) /\ Val4(U32(v)) = v
  /\ Octets(U16(b)) /\ U16(b)[1] * 256 + U16(b)[2] = b
\* (the 64-bit analogue does not terminate within 10 minutes in Z3; 64-bit fields are covered by the recorded random values)

\* C17: primary header (scid = b, srcdst = j, vcid = f % 64, map = h, flen = c, bypass / pcc / ocf from i, vcflen = g % 8)
Law_Uslp ==
  LET vcid == f % 64  w0 == UslpCommon(b, j, vcid, h, 0)  w1 == UslpCommon(b, j, vcid, h, 1)
      r == UslpRest(c, i % 2, (i \div 2) % 2, (i \div 4) % 2, g % 8) IN
  /\ Len(w0) = 4 /\ Octets(w0) /\ Octets(w1) /\ Octets(r) /\ Len(r) = 3
  /\ Bits(w0[1], 4, 4) = 12
  /\ Bits(w0[1], 0, 4) * 4096 + w0[2] * 16 + Bits(w0[3], 4, 4) = b
  /\ Bits(w0[3], 3, 1) = j /\ Bits(w0[3], 0, 3) * 8 + Bits(w0[4], 5, 3) = vcid /\ Bits(w0[4], 1, 4) = h
  /\ w0[4] % 2 = 0 /\ w1[4] % 2 = 1 /\ w0[1] = w1[1] /\ w0[2] = w1[2] /\ w0[3] = w1[3]
  /\ r[1] * 256 + r[2] = c /\ Bits(r[3], 7, 1) = i % 2 /\ Bits(r[3], 6, 1) = (i \div 2) % 2 /\ Bits(r[3], 3, 1) = (i \div 4) % 2
  /\ Bits(r[3], 0, 3) = g % 8 /\ Bits(r[3], 4, 2) = 0

\* C14: every day count: the calendar functions are mutually inverse, months / days are in range, the epoch is right;
\*      every (stamp, timedelta): the sum is normalised and equals integer arithmetic on total milliseconds
Law_CdsCalendar ==
  LET z == b - 4383  y == CivilY(z)  m == CivilM(z)  dd == CivilD(z) IN
  /\ m \in 1..12 /\ dd \in 1..31 /\ y \in 1958..2137
  /\ DaysFromCivil(y, m, dd) = z
  /\ (b = 0 => (y = 1958 /\ m = 1 /\ dd = 1)) /\ (b = 4383 => (y = 1970 /\ m = 1 /\ dd = 1))
  /\ (b = 65535 => (y = 2137 /\ m = 6 /\ dd = 6))
Law_CdsAdd ==
  LET ms == a % MsPerDay  secs == (a \div MsPerDay) % 86400  us == (a \div 7464960000000) % 1000000
      nd == AddDays(b, ms, c, secs, us)  nms == AddMs(ms, secs, us) IN
  /\ nms \in 0..(MsPerDay - 1)
  /\ nd * MsPerDay + nms = (b + c) * MsPerDay + ms + secs * 1000 + us \div 1000
  /\ nd - (b + c) \in 0..1
Law_CdsEnc ==
  LET ms == a % MsPerDay  w == CdsEnc(b, ms) IN
  Len(w) = 7 /\ Octets(w) /\ w[1] = 64 /\ w[2] * 256 + w[3] = b /\ Val4(SubSeq(w, 4, 7)) = ms
=============================================================================
