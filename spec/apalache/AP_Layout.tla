----------------------------- MODULE AP_Layout -----------------------------
(***************************************************************************)
(* Typed (Apalache) transcription of the bit layouts of the specification. *)
(* TLC enumerates bounded grids and is limited to 32-bit integers; Apalache *)
(* checks the same laws SYMBOLICALLY over the full value range of every    *)
(* field (2^48 space packet headers, 64-bit file sizes, every day count).  *)
(* The operators below are copies of those in SpacePacket / Pus / Pus1 /   *)
(* Cfdp / Uslp / Cds / Octets with arguments instead of records; module    *)
(* MC_ApEquiv (TLC) checks on the grids that the copies agree with the     *)
(* originals, so the two cannot drift apart unnoticed.                     *)
(***************************************************************************)
EXTENDS Integers, Sequences

Bits(x, lo, n) == (x \div (2^lo)) % (2^n)
\* @type: Int => Seq(Int);
U16(x) == << x \div 256, x % 256 >>
\* @type: Int => Seq(Int);
U32(x) == << x \div 16777216, (x \div 65536) % 256, (x \div 256) % 256, x % 256 >>
\* @type: Seq(Int) => Int;
Val4(s) == ((s[1] * 256 + s[2]) * 256 + s[3]) * 256 + s[4]

\* ---- CCSDS 133.0-B-2 primary header
\* @type: (Int, Int, Int, Int, Int, Int, Int) => Seq(Int);
SpEnc(ver, type, shf, apid, flags, count, dlen) ==
  U16(ver * 8192 + type * 4096 + shf * 2048 + apid) \o U16(flags * 16384 + count) \o U16(dlen)
\* @type: Seq(Int) => Int;
SpVer(b) == Bits(b[1], 5, 3)
\* @type: Seq(Int) => Int;
SpType(b) == Bits(b[1], 4, 1)
\* @type: Seq(Int) => Int;
SpShf(b) == Bits(b[1], 3, 1)
\* @type: Seq(Int) => Int;
SpApid(b) == Bits(b[1], 0, 3) * 256 + b[2]
\* @type: Seq(Int) => Int;
SpFlags(b) == Bits(b[3], 6, 2)
\* @type: Seq(Int) => Int;
SpCount(b) == Bits(b[3], 0, 6) * 256 + b[4]
\* @type: Seq(Int) => Int;
SpDlen(b) == b[5] * 256 + b[6]
SpPidRaw(type, shf, apid) == type * 4096 + shf * 2048 + apid
SpPscRaw(flags, count) == flags * 16384 + count

\* ---- PUS-C secondary headers
\* @type: (Int, Int, Int, Int) => Seq(Int);
TcSec(ack, service, subservice, source) == << 2 * 16 + ack, service, subservice >> \o U16(source)
\* @type: (Int, Int, Int, Int, Int) => Seq(Int);
TmSec(timeref, service, subservice, msgcnt, dest) == << 2 * 16 + timeref, service, subservice >> \o U16(msgcnt) \o U16(dest)

\* ---- CFDP fixed header part (octets 1..4)
\* @type: (Int, Int, Int, Int, Int, Int, Int, Int, Int, Int) => Seq(Int);
CfdpFixed(type, dir, mode, crc, large, dlen, segctrl, idw, segmeta, seqw) ==
  << 32 + type * 16 + dir * 8 + mode * 4 + crc * 2 + large >> \o U16(dlen)
  \o << segctrl * 128 + (idw - 1) * 16 + segmeta * 8 + (seqw - 1) >>
CfdpHdrLen(idw, seqw) == 4 + 2 * idw + seqw

\* ---- CFDP directive parameter octets
EofOctet(cond) == cond * 16
FinOctet(cond, delivery, status) == cond * 16 + delivery * 4 + status
\* @type: (Int, Int, Int) => Seq(Int);
AckOctets(acked, cond, tstatus) == << acked * 16 + (IF acked = 5 THEN 1 ELSE 0), cond * 16 + tstatus >>
MetaOctet(closure, cktype) == closure * 64 + cktype
FdMetaOctet(state, mdlen) == state * 64 + mdlen
FsRespOctet(action, status) == action * 16 + status

\* ---- USLP primary header
\* @type: (Int, Int, Int, Int, Int) => Seq(Int);
UslpCommon(scid, srcdst, vcid, map, trunc) ==
  << 12 * 16 + scid \div 4096, (scid \div 16) % 256, (scid % 16) * 16 + srcdst * 8 + vcid \div 8, (vcid % 8) * 32 + map * 2 + trunc >>
\* @type: (Int, Int, Int, Int, Int) => Seq(Int);
UslpRest(flen, bypass, pcc, ocf, vcflen) == U16(flen) \o << bypass * 128 + pcc * 64 + ocf * 8 + vcflen >>

\* ---- CDS short time code and the calendar
\* @type: (Int, Int) => Seq(Int);
CdsEnc(d, ms) == <<64>> \o U16(d) \o U32(ms)
DaysFromCivil(y0, m, d) ==
  LET y   == IF m <= 2 THEN y0 - 1 ELSE y0
      era == y \div 400
      yoe == y - era * 400
      mp  == IF m > 2 THEN m - 3 ELSE m + 9
      doy == (153 * mp + 2) \div 5 + d - 1
      doe == yoe * 365 + yoe \div 4 - yoe \div 100 + doy
  IN era * 146097 + doe - 719468
CivilY(z0) ==
  LET z == z0 + 719468  era == z \div 146097  doe == z - era * 146097
      yoe == (doe - doe \div 1460 + doe \div 36524 - doe \div 146096) \div 365
      doy == doe - (365 * yoe + yoe \div 4 - yoe \div 100)
      mp == (5 * doy + 2) \div 153
      m == IF mp < 10 THEN mp + 3 ELSE mp - 9
  IN yoe + era * 400 + (IF m <= 2 THEN 1 ELSE 0)
CivilM(z0) ==
  LET z == z0 + 719468  era == z \div 146097  doe == z - era * 146097
      yoe == (doe - doe \div 1460 + doe \div 36524 - doe \div 146096) \div 365
      doy == doe - (365 * yoe + yoe \div 4 - yoe \div 100)
      mp == (5 * doy + 2) \div 153
  IN IF mp < 10 THEN mp + 3 ELSE mp - 9
CivilD(z0) ==
  LET z == z0 + 719468  era == z \div 146097  doe == z - era * 146097
      yoe == (doe - doe \div 1460 + doe \div 36524 - doe \div 146096) \div 365
      doy == doe - (365 * yoe + yoe \div 4 - yoe \div 100)
      mp == (5 * doy + 2) \div 153
  IN doy - (153 * mp + 2) \div 5 + 1
MsPerDay == 86400000
AddDays(days, ms, tdDays, tdSecs, tdUs) == days + tdDays + (ms + tdSecs * 1000 + tdUs \div 1000) \div MsPerDay
AddMs(ms, tdSecs, tdUs) == (ms + tdSecs * 1000 + tdUs \div 1000) % MsPerDay
=============================================================================
