----------------------------- MODULE MC_ApEquiv -----------------------------
(***************************************************************************)
(* Ties the typed transcription used for the symbolic (Apalache) checks,   *)
(* spec/apalache/AP_Layout.tla, to the specification proper: on the        *)
(* bounded grids the copies must agree with the original operators.        *)
(* All checks are ASSUMEs, evaluated by TLC at start-up.                   *)
(***************************************************************************)
EXTENDS Pus1, Cfdp, Cds, Uslp

AP == INSTANCE AP_Layout

VARIABLE x
Init == x = 0
Next == UNCHANGED x
Spec == Init /\ [][Next]_x

ASSUME \A v \in {0, 7} : \A h \in SpHdrGrid(v) :
         /\ AP!SpEnc(h.ver, h.type, h.shf, h.apid, h.flags, h.count, h.dlen) = SpHdrEnc(h)
         /\ AP!SpPidRaw(h.type, h.shf, h.apid) = SpPacketIdRaw(h) /\ AP!SpPscRaw(h.flags, h.count) = SpPscRaw(h)
ASSUME \A b \in SpDecGrid :
         LET d == SpHdrDec(b) IN
         <<AP!SpVer(b), AP!SpType(b), AP!SpShf(b), AP!SpApid(b), AP!SpFlags(b), AP!SpCount(b), AP!SpDlen(b)>>
           = <<d.ver, d.type, d.shf, d.apid, d.flags, d.count, d.dlen>>
ASSUME \A p \in TcAckGrid \cup TcParGrid(1) : AP!TcSec(p.ack, p.service, p.subservice, p.source) = TcSecEnc(TcOf(p))
ASSUME \A p \in TmRefGrid : AP!TmSec(p.timeref, p.service, p.subservice, p.msgcnt, p.dest) \o p.stamp = TmSecEnc(TmOf(p))
ASSUME \A j \in 1..16 : \A h \in HdrGrid(WidthPairs[j][1], WidthPairs[j][2]) :
         /\ AP!CfdpFixed(h.type, h.dir, h.mode, h.crc, h.large, h.dlen, h.segctrl, Len(h.src), h.segmeta, Len(h.seq)) = Take(CfdpHdrEnc(h), 4)
         /\ AP!CfdpHdrLen(Len(h.src), Len(h.seq)) = Len(CfdpHdrEnc(h))
ASSUME \A p \in ParamGrid("eof") : ParamEnc("eof", p, 0)[1] = AP!EofOctet(p.cond)
ASSUME \A p \in ParamGrid("finished") : ParamEnc("finished", p, 0)[1] = AP!FinOctet(p.cond, p.delivery, p.status)
ASSUME \A p \in ParamGrid("ack") : ParamEnc("ack", p, 0) = AP!AckOctets(p.acked, p.cond, p.tstatus)
ASSUME \A p \in ParamGrid("metadata") : ParamEnc("metadata", p, 0)[1] = AP!MetaOctet(p.closure, p.cktype)
ASSUME \A p \in {q \in ParamGrid("filedata") : Has(q.meta) /\ Len(Get(q.meta).md) <= 63} :
         FdBody(p, 0)[1] = AP!FdMetaOctet(Get(p.meta).state, Len(Get(p.meta).md))
ASSUME \A a \in 0..8 : \A s \in FsStatuses(a) :
         FsRespValue([action |-> a, status |-> s, n1 |-> <<>>, n2 |-> <<>>, msg |-> <<>>])[1] = AP!FsRespOctet(a, s)
ASSUME \A s \in UslpScidGrid, sd \in 0..1, v \in UslpVcidGrid, m \in UslpMapGrid, t \in 0..1 :
         AP!UslpCommon(s, sd, v, m, t) = UslpCommonEnc([UslpHdrSample EXCEPT !.scid = s, !.srcdst = sd, !.vcid = v, !.map = m, !.trunc = t])
ASSUME \A fl \in {0, 258, 65535}, by \in 0..1, pc \in 0..1, oc \in 0..1, n \in 0..7 :
         LET h == [UslpHdrSample EXCEPT !.flen = fl, !.bypass = by, !.pcc = pc, !.ocf = oc, !.vcflen = n, !.vcf = VcfOf(n)] IN
         UslpCommonEnc(h) \o AP!UslpRest(fl, by, pc, oc, n) \o VcfOf(n) = UslpHdrEnc(h)
ASSUME \A st \in CdsStampGrid : AP!CdsEnc(st.days, st.ms) = CdsEnc(st.days, st.ms)
ASSUME \A dd \in CdsDayGrid \cup {400, 789, 10000, 20000, 51543, 60000} :
         LET z == dd - CcsdsToUnixDays  c == CivilFromDays(z) IN
         /\ <<AP!CivilY(z), AP!CivilM(z), AP!CivilD(z)>> = <<c.y, c.mo, c.d>>
         /\ AP!DaysFromCivil(c.y, c.mo, c.d) = DaysFromCivil(c.y, c.mo, c.d)
ASSUME \A st \in CdsStampGrid, td \in CdsTdGrid :
         LET r == CdsAdd(st, td) IN
         r.ok => (r.v.days = AP!AddDays(st.days, st.ms, td.days, td.secs, td.us) /\ r.v.ms = AP!AddMs(st.ms, td.secs, td.us))
=============================================================================
