SPECIFICATION Spec
CHECK_DEADLOCK FALSE
VIEW View
INVARIANT Inv_Range
INVARIANT Inv_FileValid
PROPERTY Act_SuccessorFile
PROPERTY Act_SuccessorMem
PROPERTY Act_RestartKeeps
PROPERTY Act_FirstIsZero
PROPERTY Act_Rejects
ACTION_CONSTRAINT Emit
CONSTANT BadContents <- BadDef
