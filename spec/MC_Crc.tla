------------------------------- MODULE MC_Crc -------------------------------
(***************************************************************************)
(* Design-level fact behind C04: CRC-16/CCITT-FALSE detects every burst of *)
(* at most 16 bits.  By linearity, flipping the error vector e in a        *)
(* message changes the checksum by the CRC (initial value 0) of e, so the  *)
(* message content is irrelevant: it suffices that no error vector made of *)
(* one burst has CRC 0.  Checked here for ALL burst shapes (width 1..16,   *)
(* first and last bit set) at every bit offset of a MsgLen-octet message   *)
(* followed by its 2-octet trailer.  (One state per (offset, shape).)      *)
(***************************************************************************)
EXTENDS Octets

CONSTANT MsgLen
VARIABLE c

Shapes(w) == IF w = 1 THEN {1} ELSE {2^(w - 1) + 2 * m + 1 : m \in 0..(2^(w - 2) - 1)}
Init == c = [k |-> "idle"]
PickOff == c.k = "idle" /\ \E off \in 0..(8 * (MsgLen + 2) - 1), w \in 1..16 :
              off + w <= 8 * (MsgLen + 2) /\ c' = [k |-> "off", off |-> off, w |-> w]
PickShape == c.k = "off" /\ \E p \in Shapes(c.w) : c' = [k |-> "burst", off |-> c.off, w |-> c.w, pat |-> p]
Next == PickOff \/ PickShape
Spec == Init /\ [][Next]_c

ErrVec == FlipBits(Zeros(MsgLen + 2), c.off, c.w, c.pat)
Inv_BurstDetected == c.k = "burst" => Crc16From(0, ErrVec) # 0
\* linearity, on a sample message: CRC(m xor e) = CRC(m) xor CRC0(e)
Sample == [i \in 1..(MsgLen + 2) |-> (37 * i + 11) % 256]
Inv_Linear == c.k = "burst" =>
                Crc16(FlipBits(Sample, c.off, c.w, c.pat)) = Crc16(Sample) ^^ Crc16From(0, ErrVec)
=============================================================================
