----------------------------- MODULE MC_SpParser -----------------------------
EXTENDS SpParser, Json

\* a space packet of total length n (7..) with the given APID / type / flag and filler
Pkt(type, shf, apid, n, fill) ==
  SpHdrEnc([ver |-> 0, type |-> type, shf |-> shf, apid |-> apid, flags |-> 3, count |-> n, dlen |-> n - 7])
  \o [i \in 1..(n - 6) |-> fill[((i - 1) % Len(fill)) + 1]]

IdTc == 4096 + 2048 + 66        \* TC, sec hdr, APID 0x42  -> first octets 0x18 0x42
IdTm == 2048 + 1                \* TM, sec hdr, APID 1     -> first octets 0x08 0x01
Ids == {IdTc, IdTm}
\* fillers: harmless, looking like a registered packet ID, looking like a header with huge length
FillA == <<170>>
FillB == <<24, 66>>
FillC == <<8, 1, 192, 0, 255, 255>>
Gar == <<255, 255, 255>>        \* cannot form a registered ID with any neighbour

Mk(pkts, clean, stream) == [stream |-> stream, packets |-> pkts, ids |-> Ids, clean |-> clean]
Clean(pkts) == Mk(pkts, TRUE, Concat(pkts))

P7  == Pkt(1, 1, 66, 7, FillA)
P8  == Pkt(0, 1, 1, 8, FillB)
P9  == Pkt(1, 1, 66, 9, FillC)
P13 == Pkt(0, 1, 1, 13, FillB)
P13c == Pkt(1, 1, 66, 13, FillC)

StreamsQuick == <<
  Clean(<<P13>>),
  Clean(<<P7, P8>>),
  Clean(<<P9, P7, P8>>),
  Clean(<<P8, P13c>>),
  Mk(<<P7, P9>>, FALSE, Gar \o P7 \o Gar \o P9),
  Mk(<<P8>>, FALSE, P8 \o SubSeq(Gar, 1, 2)),
  \* a run of filler longer than a header in front of a packet
  Mk(<<P7, P8>>, FALSE, P7 \o <<255, 255, 255, 255, 255, 255, 255>> \o P8) >>

StreamsThorough == StreamsQuick \o <<
  Clean(<<P7>>), Clean(<<P8>>), Clean(<<P9>>), Clean(<<P13c>>),
  Clean(<<P7, P7>>), Clean(<<P7, P9>>), Clean(<<P9, P8>>), Clean(<<P13, P7>>), Clean(<<P13c, P13>>),
  Clean(<<P7, P7, P7>>), Clean(<<P7, P8, P9>>), Clean(<<P8, P9, P7>>), Clean(<<P9, P9, P8>>),
  Clean(<<P13, P7, P8>>), Clean(<<P7, P13c, P7>>), Clean(<<P8, P8, P13>>),
  Clean(<<P7, P7, P7, P7>>), Clean(<<P7, P8, P7, P9>>),
  Mk(<<P7>>, FALSE, Gar \o P7),
  Mk(<<P7>>, FALSE, P7 \o Gar),
  Mk(<<P8, P7>>, FALSE, P8 \o <<255>> \o P7),
  Mk(<<P8, P7>>, FALSE, <<0>> \o P8 \o <<255, 0>> \o P7 \o <<255>>),
  Mk(<<P9, P8>>, FALSE, Gar \o Gar \o P9 \o P8),
  Mk(<<P7, P8, P9>>, FALSE, P7 \o Gar \o P8 \o Gar \o P9),
  Mk(<<P13c>>, FALSE, <<255, 24>> \o P13c),
  Mk(<<P7, P7>>, FALSE, P7 \o <<255, 255, 255, 255, 255, 255, 255>> \o P7),
  Mk(<<>>, FALSE, Gar \o Gar),
  Mk(<<>>, FALSE, <<255>>),
  Clean(<<P13, P13c, P9>>), Clean(<<P9, P13, P7, P8>>),
  Clean(<<Pkt(1, 1, 66, 20, FillB)>>), Clean(<<Pkt(0, 1, 1, 16, FillC), P7>>),
  Clean(<<P7, Pkt(1, 1, 66, 15, FillA)>>), Clean(<<P8, P8>>) >>

Emit == PrintT("EMIT " \o ToJson(
          [sid |-> sid,
           src |-> [fed |-> fed, queue |-> queue, nd |-> Len(delivered), last |-> last],
           ev  |-> ev',
           dst |-> [fed |-> fed', queue |-> queue', nd |-> Len(delivered'), last |-> last']]))

Meta == PrintT("META " \o ToJson([streams |-> Streams]))
ASSUME Meta
=============================================================================
