SPECIFICATION TraceSpec
CHECK_DEADLOCK FALSE
CONSTANT TCs = {1, 2, 3, 4, 5, 6}
CONSTANT StepIds = {1}
CONSTANT MaxSteps = 1
