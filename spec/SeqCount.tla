------------------------------- MODULE SeqCount -------------------------------
(***************************************************************************)
(* Sequence count providers.                                               *)
(*   SeqCountProvider(W)            - in memory                            *)
(*   FileSeqCountProvider(W, path)  - state kept in the first line of a    *)
(*                                    text file; instances hold no state,  *)
(*                                    so a restart is a new instance on    *)
(*                                    the same file                        *)
(* get_and_increment returns the stored value and stores (v+1) mod 2^W.    *)
(* The file is modelled at character level (ASCII codes), because the      *)
(* implementation overwrites the first line in place without truncating.   *)
(* One action per public call; Restart may happen between any two calls.   *)
(***************************************************************************)
EXTENDS Integers, Sequences, SequencesExt, FiniteSets, TLC

CONSTANTS W,          \* counter width in bits
          Faults,     \* BOOLEAN: are Delete / Scribble steps allowed
          BadContents \* set of file contents used by Scribble

VARIABLES file,       \* [m |-> TRUE] (missing) or [c |-> sequence of ASCII codes]
          mem,        \* stored value of the in-memory provider
          prev,       \* last value returned by the file-backed sequence, -1 if none / sequence broken
          prevMem,    \* last value returned by the in-memory provider, -1 if none
          ev

vars == <<file, mem, prev, prevMem, ev>>
View == <<file, mem, prev, prevMem>>

Modulus == 2^W
Missing == [m |-> TRUE]
NL == 10
IsDigit(c) == c \in 48..57
IsSpace(c) == c \in {32, 9, 10, 11, 12, 13}

RECURSIVE Digits(_)
Digits(n) == IF n < 10 THEN <<48 + n>> ELSE Digits(n \div 10) \o <<48 + (n % 10)>>
Content(n) == [c |-> Digits(n) \o <<NL>>]

\* readline(): up to and including the first newline
FirstLine(s) == IF \E i \in DOMAIN s : s[i] = NL
                THEN SubSeq(s, 1, CHOOSE i \in DOMAIN s : s[i] = NL /\ \A j \in 1..(i-1) : s[j] # NL)
                ELSE s
RECURSIVE RStrip(_)
RStrip(s) == IF s # <<>> /\ IsSpace(s[Len(s)]) THEN RStrip(SubSeq(s, 1, Len(s) - 1)) ELSE s
DecVal(s) == FoldLeft(LAMBDA acc, c : acc * 10 + (c - 48), 0, s)

\* what reading the counter yields: [ok |-> TRUE, v] or [ok |-> FALSE, err]
ReadM(f, modulus) ==
           IF f = Missing THEN [ok |-> FALSE, err |-> "notfound"]
           ELSE LET ln == RStrip(FirstLine(f.c))
                IN IF ln = <<>> \/ \E i \in DOMAIN ln : ~IsDigit(ln[i]) THEN [ok |-> FALSE, err |-> "value"]
                   ELSE IF Len(ln) > 8 \/ DecVal(ln) > modulus - 1 THEN [ok |-> FALSE, err |-> "value"]
                   ELSE [ok |-> TRUE, v |-> DecVal(ln)]
Read(f) == ReadM(f, Modulus)

\* ---- the same reading on decimal strings of any size (TLC integers are 32-bit; a provider may be 64 bits wide): a count is
\* its sequence of ASCII digits without leading zeros
RECURSIVE StripZ(_)
StripZ(s) == IF Len(s) > 1 /\ s[1] = 48 THEN StripZ(Tail(s)) ELSE s
RECURSIVE DecInc(_)
DecInc(s) == IF s = <<>> THEN <<49>>
             ELSE IF s[Len(s)] < 57 THEN [s EXCEPT ![Len(s)] = @ + 1]
             ELSE DecInc(Front(s)) \o <<48>>
RECURSIVE DblC(_, _)
DblC(s, c) == IF s = <<>> THEN (IF c = 0 THEN <<>> ELSE <<48 + c>>)
              ELSE LET d == (s[Len(s)] - 48) * 2 + c IN DblC(Front(s), d \div 10) \o <<48 + (d % 10)>>
RECURSIVE Pow2D(_)
Pow2D(w) == IF w = 0 THEN <<49>> ELSE DblC(Pow2D(w - 1), 0)
DecLt(a, b) == \/ Len(a) < Len(b)
               \/ Len(a) = Len(b) /\ \E i \in DOMAIN a : a[i] < b[i] /\ \A j \in 1..(i - 1) : a[j] = b[j]
ReadD(f, w) ==
           IF f = Missing THEN [ok |-> FALSE, err |-> "notfound"]
           ELSE LET ln == RStrip(FirstLine(f.c))
                IN IF ln = <<>> \/ \E i \in DOMAIN ln : ~IsDigit(ln[i]) THEN [ok |-> FALSE, err |-> "value"]
                   ELSE IF ~DecLt(StripZ(ln), Pow2D(w)) THEN [ok |-> FALSE, err |-> "value"]
                   ELSE [ok |-> TRUE, d |-> StripZ(ln)]
NextD(d, w) == LET n == DecInc(d) IN IF n = Pow2D(w) THEN <<48>> ELSE n

\* write at offset 0 without truncation
Overwrite(old, new) == IF Len(old) > Len(new) THEN new \o SubSeq(old, Len(new) + 1, Len(old)) ELSE new

Init == /\ file = Missing /\ mem = 0 /\ prev = -1 /\ prevMem = -1 /\ ev = [a |-> "init"]

\* the first instance must exist before the file-backed calls make sense
Live == ev # [a |-> "init"] \/ file # Missing

\* a new instance on the path: creates the file with count 0 if it does not exist
Restart == /\ file' = IF file = Missing THEN Content(0) ELSE file
           /\ prev' = IF file = Missing THEN -1 ELSE prev
           /\ ev' = [a |-> "restart"]
           /\ UNCHANGED <<mem, prevMem>>

NextFile == LET r == Read(file)
            IN /\ Live
               /\ IF r.ok
                  THEN /\ file' = [c |-> Overwrite(file.c, Digits((r.v + 1) % Modulus) \o <<NL>>)]
                       /\ prev' = r.v
                       /\ ev' = [a |-> "next_file", ret |-> [v |-> r.v]]
                  ELSE /\ UNCHANGED file
                       /\ prev' = -1
                       /\ ev' = [a |-> "next_file", ret |-> [exc |-> r.err]]
               /\ UNCHANGED <<mem, prevMem>>

Current == LET r == Read(file)
           IN /\ Live
              /\ ev' = [a |-> "current", ret |-> IF r.ok THEN [v |-> r.v] ELSE [exc |-> r.err]]
              /\ UNCHANGED <<file, mem, prev, prevMem>>

NextMem == /\ mem' = (mem + 1) % Modulus
           /\ prevMem' = mem
           /\ ev' = [a |-> "next_mem", ret |-> [v |-> mem]]
           /\ UNCHANGED <<file, prev>>

Delete == /\ Faults /\ file # Missing
          /\ file' = Missing /\ prev' = -1
          /\ ev' = [a |-> "delete"]
          /\ UNCHANGED <<mem, prevMem>>

Scribble == /\ Faults
            /\ \E b \in BadContents : /\ file' = [c |-> b]
                                      /\ ev' = [a |-> "scribble", c |-> b]
            /\ prev' = -1
            /\ UNCHANGED <<mem, prevMem>>

Next == Restart \/ NextFile \/ Current \/ NextMem \/ Delete \/ Scribble

Spec == Init /\ [][Next]_vars

(***************************************************************************)
(* Properties (C19)                                                        *)
(***************************************************************************)
Inv_Range == mem \in 0..(Modulus - 1) /\ prev \in -1..(Modulus - 1) /\ prevMem \in -1..(Modulus - 1)
\* without injected faults the file holds a valid count at every point between calls
Inv_FileValid == (~Faults /\ file # Missing) => Read(file).ok
\* each returned value is the previous one plus one modulo 2^W - across restarts
Act_SuccessorFile == [][(ev'.a = "next_file" /\ "v" \in DOMAIN ev'.ret /\ prev # -1)
                          => ev'.ret.v = (prev + 1) % Modulus]_vars
Act_SuccessorMem  == [][ev'.a = "next_mem" => ev'.ret.v = (IF prevMem = -1 THEN 0 ELSE (prevMem + 1) % Modulus)]_vars
\* a restart never changes an existing file: the sequence continues where it stopped
Act_RestartKeeps  == [][(ev'.a = "restart" /\ file # Missing) => (file' = file /\ prev' = prev)]_vars
\* first use yields 0
Act_FirstIsZero   == [][(ev'.a = "restart" /\ file = Missing) => Read(file') = [ok |-> TRUE, v |-> 0]]_vars
\* errors are reported, never a value, and leave the file alone
Act_Rejects == [][(ev'.a = "next_file" /\ ~Read(file).ok) =>
                    (ev'.ret = [exc |-> Read(file).err] /\ file' = file)]_vars
=============================================================================
