SPECIFICATION Spec
CHECK_DEADLOCK FALSE
VIEW View
INVARIANT TypeOK
INVARIANT Inv_StepStatus
PROPERTY Act_NeverReverts
PROPERTY Act_FailedStepSticky
PROPERTY Act_Isolation
PROPERTY Act_UnknownNoEffect
PROPERTY Act_DuplicateRefused
PROPERTY Act_StepList
PROPERTY Act_RemoveCompletedExact
PROPERTY Act_RemoveEntry
PROPERTY Act_AllExact
PROPERTY Act_CompletedFlag
