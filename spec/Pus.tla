-------------------------------- MODULE Pus --------------------------------
(***************************************************************************)
(* ECSS-E-ST-70-41C (PUS-C) telecommand and telemetry packets.             *)
(*                                                                         *)
(* TC (7.4.4):  primary header (type 1, sec hdr 1, unsegmented)            *)
(*              | version 2 (4) ack flags (4) | service | subservice       *)
(*              | source ID (16) | application data | CRC-16               *)
(* TM (7.4.3):  primary header (type 0, sec hdr 1, unsegmented)            *)
(*              | version 2 (4) time ref (4) | service | subservice        *)
(*              | message counter (16) | destination ID (16) | time stamp  *)
(*              | source data | CRC-16                                     *)
(* The data length field is (octets after the primary header) - 1.         *)
(*                                                                         *)
(* Abstract TC: [h, ack, service, subservice, source, data]                *)
(* Abstract TM: [h, timeref, service, subservice, msgcnt, dest, stamp,     *)
(*               data]            (h = abstract space packet header)       *)
(***************************************************************************)
EXTENDS SpacePacket

PusRejFams == <<"value", "crc">>

TcSecLen == 5
TcMinLen == 6 + TcSecLen + 2                      \* 13
TmSecMin == 7
TmMinLen(tsLen) == 6 + TmSecMin + tsLen + 2       \* 15 + tsLen

\* parameters as handed to the constructor: [apid, seq, ack, service, subservice, source, data]
TcHdr(p) == [ver |-> 0, type |-> 1, shf |-> 1, apid |-> p.apid, flags |-> 3,
             count |-> p.seq, dlen |-> TcSecLen + Len(p.data) + 1]
TcOf(p) == [h |-> TcHdr(p), ack |-> p.ack, service |-> p.service,
            subservice |-> p.subservice, source |-> p.source, data |-> p.data]
TcFits(p) == TcSecLen + Len(p.data) + 1 <= 65535

TcSecEnc(t) == << 2 * 16 + t.ack, t.service, t.subservice >> \o U16(t.source)
TcBody(t) == SpHdrEnc(t.h) \o TcSecEnc(t) \o t.data
TcEnc(t)  == WithCrc(TcBody(t))

TcSecDec(b) == IF Len(b) < TcSecLen THEN Rej(<<"value">>)
               ELSE IF Bits(b[1], 4, 4) # 2 THEN Rej(<<"value">>)
               ELSE Acc([ack |-> Bits(b[1], 0, 4), service |-> b[2], subservice |-> b[3],
                         source |-> b[4] * 256 + b[5]], 5)

TcDec(b) ==
  IF Len(b) < 6 THEN Rej(PusRejFams) ELSE
  LET h == SpHdrDec(b)
      n == h.dlen + 7
  IN IF n < TcMinLen THEN Rej(PusRejFams)          \* no room for sec. header + CRC
     ELSE IF Len(b) < n THEN Rej(PusRejFams)
     ELSE IF Bits(b[7], 4, 4) # 2 THEN Rej(PusRejFams)
     ELSE IF Crc16(Take(b, n)) # 0 THEN Rej(PusRejFams)
     ELSE Acc([h |-> h, ack |-> Bits(b[7], 0, 4), service |-> b[8], subservice |-> b[9],
               source |-> b[10] * 256 + b[11], data |-> SubSeq(b, 12, n - 2)], n)

\* constructor parameters: [ver, apid, seq, service, subservice, msgcnt, dest, timeref, stamp, data]
TmHdr(p) == [ver |-> p.ver, type |-> 0, shf |-> 1, apid |-> p.apid, flags |-> 3,
             count |-> p.seq, dlen |-> TmSecMin + Len(p.stamp) + Len(p.data) + 1]
TmOf(p) == [h |-> TmHdr(p), timeref |-> p.timeref, service |-> p.service,
            subservice |-> p.subservice, msgcnt |-> p.msgcnt, dest |-> p.dest,
            stamp |-> p.stamp, data |-> p.data]
TmFits(p) == TmSecMin + Len(p.stamp) + Len(p.data) + 1 <= 65535

TmSecEnc(t) == << 2 * 16 + t.timeref, t.service, t.subservice >> \o U16(t.msgcnt)
               \o U16(t.dest) \o t.stamp
TmBody(t) == SpHdrEnc(t.h) \o TmSecEnc(t) \o t.data
TmEnc(t)  == WithCrc(TmBody(t))
TmStampOffset == 13          \* 0-based offset of the time stamp in a packed TM

TmDec(b, tsLen) ==
  IF Len(b) < 6 THEN Rej(PusRejFams) ELSE
  LET h == SpHdrDec(b)
      n == h.dlen + 7
  IN IF n < TmMinLen(tsLen) THEN Rej(PusRejFams)   \* no room for header, stamp and CRC
     ELSE IF Len(b) < n THEN Rej(PusRejFams)
     ELSE IF Bits(b[7], 4, 4) # 2 THEN Rej(PusRejFams)
     ELSE IF Crc16(Take(b, n)) # 0 THEN Rej(PusRejFams)
     ELSE Acc([h |-> h, timeref |-> Bits(b[7], 0, 4), service |-> b[8], subservice |-> b[9],
               msgcnt |-> b[10] * 256 + b[11], dest |-> b[12] * 256 + b[13],
               stamp |-> SubSeq(b, 14, 13 + tsLen), data |-> SubSeq(b, 14 + tsLen, n - 2)], n)

(***************************************************************************)
(* Expected observations                                                   *)
(***************************************************************************)
PusOps == {"tc.rt", "tc.unpack", "tm.rt", "tm.unpack", "pus.crc", "tm.svc_raw", "tcsh.unpack"}

PusExp(op, a) ==
  CASE op = "tc.rt" ->
         IF ~TcFits(a.p) THEN ExpRej(<<"*">>)     \* data that does not fit: packing must fail (how is not stated)
         ELSE LET t == TcOf(a.p)  w == TcEnc(t)
              IN [octets |-> w, plen |-> Len(w), sp |-> w, crcok |-> TRUE,
                  dec |-> t, dplen |-> Len(w), eq |-> TRUE, repack |-> w,
                  keep |-> w]       \* pack(recalc_crc = FALSE) of the decoded object: its stored CRC field is the packet's own
    [] op = "tc.unpack" ->
         LET d == TcDec(a.octets)
         IN IF d.ok THEN [v |-> d.v, plen |-> d.n, repack |-> Take(a.octets, d.n), keep |-> Take(a.octets, d.n)]
            ELSE ExpRej(d.rej)
    [] op = "tm.rt" ->
         IF ~TmFits(a.p) THEN ExpRej(<<"*">>)
         ELSE LET t == TmOf(a.p)  w == TmEnc(t)
              IN [octets |-> w, plen |-> Len(w), sp |-> w, crcok |-> TRUE,
                  dec |-> t, dplen |-> Len(w), eq |-> TRUE, repack |-> w, keep |-> w,
                  stampat |-> SubSeq(w, TmStampOffset + 1, TmStampOffset + Len(a.p.stamp))]
    [] op = "tm.unpack" ->
         LET d == TmDec(a.octets, a.tslen)
         IN IF d.ok THEN [v |-> d.v, plen |-> d.n, repack |-> Take(a.octets, d.n), keep |-> Take(a.octets, d.n)]
            ELSE ExpRej(d.rej)
    [] op = "pus.crc" -> [ok |-> Crc16(a.octets) = 0]
    [] op = "tm.svc_raw" ->
         IF Len(a.octets) < 8 THEN ExpRej(<<"value">>) ELSE [service |-> a.octets[8]]
    [] op = "tcsh.unpack" ->
         LET d == TcSecDec(a.octets)
         IN IF d.ok THEN [v |-> d.v] ELSE ExpRej(d.rej)

(***************************************************************************)
(* Laws                                                                    *)
(***************************************************************************)
TcLaw_RT(p)  == LET t == TcOf(p) w == TcEnc(t) d == TcDec(w)
                IN d.ok /\ d.v = t /\ d.n = Len(w) /\ Len(w) = SpPacketLen(t.h) /\ Crc16(w) = 0
TcLaw_Suffix(p, s) == TcDec(TcEnc(TcOf(p)) \o s) = TcDec(TcEnc(TcOf(p)))
TcLaw_Prefix(p, k) == LET w == TcEnc(TcOf(p)) IN k < Len(w) => ~TcDec(Take(w, k)).ok
TmLaw_RT(p)  == LET t == TmOf(p) w == TmEnc(t) d == TmDec(w, Len(p.stamp))
                IN d.ok /\ d.v = t /\ d.n = Len(w) /\ Len(w) = SpPacketLen(t.h) /\ Crc16(w) = 0
                   /\ SubSeq(w, 14, 13 + Len(p.stamp)) = p.stamp
TmLaw_Suffix(p, s) == TmDec(TmEnc(TmOf(p)) \o s, Len(p.stamp)) = TmDec(TmEnc(TmOf(p)), Len(p.stamp))
TmLaw_Prefix(p, k) == LET w == TmEnc(TmOf(p)) IN k < Len(w) => ~TmDec(Take(w, k), Len(p.stamp)).ok

(***************************************************************************)
(* Bounded grids (MC_Codec): constructor parameter cross products, suffix  *)
(* sets, every strict prefix of sample packets, and the adversarial        *)
(* "short declared length" family: buffers of >= 13 octets whose header    *)
(* declares N < minimum octets, whose first N octets carry a valid CRC and *)
(* whose following octets look like a secondary header.                    *)
(***************************************************************************)
PusDataGrid == {<<>>, <<0>>, <<1, 2, 3>>, <<255, 254, 253, 252, 251>>}
PusSfxGrid  == {<<>>, <<0>>, <<24, 1, 192, 0, 0, 6, 47, 17, 1, 0, 0, 171, 98>>}

TcParGrid(apid) == [apid : {apid}, seq : {0, 4660, 16383}, ack : {0, 5, 15},
                    service : {0, 17, 255}, subservice : {1, 255}, source : {0, 258, 65535},
                    data : PusDataGrid]
TcAckGrid == [apid : {66}, seq : {22}, ack : 0..15, service : {17}, subservice : {1},
              source : {0}, data : {<<>>}]
TcSample == [apid |-> 66, seq |-> 22, ack |-> 15, service |-> 17, subservice |-> 1,
             source |-> 0, data |-> <<1, 2, 3>>]

\* candidates of the short-declared family for declared total length N (7..12)
ShortDeclHdr(c, N, type) == SpHdrEnc([ver |-> 0, type |-> type, shf |-> 1, apid |-> 66, flags |-> 3,
                                     count |-> c, dlen |-> N - 7])
ShortDeclCand(c, N, type) == WithCrc(Take(ShortDeclHdr(c, N, type) \o <<47, 17, 1, 0, 0, 7, 7, 7, 7, 7, 7, 7, 7, 7, 7, 7>>, N - 2))
ShortDeclPad == <<32, 17, 2, 0, 1, 0, 2, 64, 0, 1, 0, 0, 0, 9, 171, 205, 1, 2, 3, 4, 5, 6, 7, 8, 9>>
ShortDeclared(N, type) ==
  { cnd \o SubSeq(ShortDeclPad, 1, 30 - N) \o tail :
      cnd \in { ShortDeclCand(c, N, type) : c \in 0..16383 }, tail \in {<<>>} }
ShortDeclGood(N, type) ==
  LET all == { ShortDeclCand(c, N, type) : c \in 0..(IF N <= 8 THEN 4095 ELSE 15) }
      ok  == { w \in all : /\ SpDeclaredLen(w) = N
                            /\ (N <= 8 => Bits(w[7], 4, 4) = 2) }
  IN { w \o SubSeq(ShortDeclPad, 1, 25) : w \in ok }

TcNParts == 9
TcGridPart(i) ==
  CASE i \in 1..3 -> {[op |-> "tc.rt", a |-> [p |-> p, sfx |-> s, via |-> v]] :
                      p \in TcParGrid(<<0, 1, 2047>>[i]), s \in PusSfxGrid, v \in {"ctor"}}
    [] i = 4 -> {[op |-> "tc.rt", a |-> [p |-> p, sfx |-> <<>>, via |-> v]] :
         p \in TcAckGrid \cup {TcSample}, v \in {"ctor", "sph", "composite", "setter", "bytearray", "empty"}}
                \cup {[op |-> "tc.rt", a |-> [p |-> p, sfx |-> <<>>, via |-> "empty"]] : p \in TcParGrid(2047)}
                \cup {[op |-> "tc.rt", a |-> [p |-> p, sfx |-> s, via |-> "bytearray"]] : p \in TcParGrid(1), s \in {<<>>, <<0>>}}
                \cup {[op |-> "tc.rt", a |-> [p |-> p, sfx |-> <<>>, via |-> "setter"]] : p \in TcParGrid(2047)}
    [] i = 5 -> {[op |-> "tc.unpack", a |-> [octets |-> Take(TcEnc(TcOf(p)), k)]] :
         p \in {TcSample, [TcSample EXCEPT !.data = <<>>]}, k \in 0..15}
    [] i = 6 -> {[op |-> "tc.unpack", a |-> [octets |-> w]] : w \in UNION {ShortDeclGood(N, 1) : N \in 7..12}}
    [] i = 7 -> {[op |-> "tc.unpack", a |-> [octets |-> [TcEnc(TcOf(TcSample)) EXCEPT ![j] = b]]] :
         j \in 1..16, b \in {0, 1, 127, 128, 255}}
    [] i = 8 -> {[op |-> "tcsh.unpack", a |-> [octets |-> b]] :
         b \in {<<>>, <<47>>, <<47, 17, 1, 0>>, <<47, 17, 1, 0, 5>>, <<31, 17, 1, 0, 5>>,
                <<32, 255, 0, 255, 254, 9>>}}
    [] i = 9 -> {[op |-> "pus.crc", a |-> [octets |-> b]] :
         b \in {TcEnc(TcOf(TcSample)), [TcEnc(TcOf(TcSample)) EXCEPT ![4] = 23], <<>>, <<255, 255>>, <<29, 15>>}}

TmParGrid(stamp) == [ver : {0, 7}, apid : {0, 2047}, seq : {0, 16383}, service : {0, 17, 255},
                     subservice : {2, 255}, msgcnt : {0, 258, 65535}, dest : {0, 772, 65535},
                     timeref : {0, 15}, stamp : {stamp}, data : {<<>>, <<1, 2, 3>>}]
TmStampGrid == << <<>>, <<1>>, <<1, 2>>, <<64, 0, 1, 0, 0, 0, 9>>, <<1, 2, 3, 4, 5, 6, 7, 8>>,
                  [i \in 1..16 |-> 16 + i] >>
TmSample == [ver |-> 0, apid |-> 66, seq |-> 22, service |-> 17, subservice |-> 2, msgcnt |-> 5,
             dest |-> 772, timeref |-> 3, stamp |-> <<64, 0, 1, 0, 0, 0, 9>>, data |-> <<1, 2, 3>>]
TmRefGrid == {[TmSample EXCEPT !.timeref = r, !.ver = v] : r \in 0..15, v \in 0..7}

TmNParts == 13
TmGridPart(i) ==
  CASE i \in 1..6 -> {[op |-> "tm.rt", a |-> [p |-> p, sfx |-> s, via |-> "tm"]] :
                      p \in TmParGrid(TmStampGrid[i]), s \in {<<>>, <<0>>}}
    [] i = 7 -> {[op |-> "tm.rt", a |-> [p |-> p, sfx |-> s, via |-> "tm"]] : p \in TmRefGrid, s \in PusSfxGrid}
                \cup {[op |-> "tm.rt", a |-> [p |-> p, sfx |-> <<>>, via |-> "setter"]] : p \in TmRefGrid \cup TmParGrid(TmStampGrid[4])}
                \cup {[op |-> "tm.rt", a |-> [p |-> [TmSample EXCEPT !.stamp = TmStampGrid[j], !.data = d], sfx |-> <<>>, via |-> "bytearray"]] :
                        j \in 1..6, d \in PusDataGrid}
                \cup {[op |-> "tm.rt", a |-> [p |-> [TmSample EXCEPT !.stamp = TmStampGrid[j], !.data = d], sfx |-> <<>>, via |-> "decoded-setter"]] :
                        j \in 1..6, d \in PusDataGrid}
    [] i = 8 -> {[op |-> "tm.rt", a |-> [p |-> [p EXCEPT !.service = 17, !.msgcnt = 0], sfx |-> <<>>, via |-> "srv17"]] :
         p \in TmRefGrid \cup UNION {TmParGrid(TmStampGrid[j]) : j \in {1, 4}}}
    [] i = 9 -> {[op |-> "tm.unpack", a |-> [octets |-> Take(TmEnc(TmOf(p)), k), tslen |-> Len(p.stamp), via |-> v]] :
         p \in {TmSample, [TmSample EXCEPT !.data = <<>>, !.stamp = <<>>]}, k \in 0..24, v \in {"tm", "srv17"}}
    [] i = 10 -> {[op |-> "tm.unpack", a |-> [octets |-> w, tslen |-> t, via |-> "tm"]] :
         w \in UNION {ShortDeclGood(N, 0) : N \in 7..12}, t \in {0, 7}}
    \* declared length large enough for tslen 0 but not for the tslen handed to the decoder
    [] i = 11 -> {[op |-> "tm.unpack", a |-> [octets |-> TmEnc(TmOf([TmSample EXCEPT !.stamp = <<>>, !.data = d])) \o ShortDeclPad,
                                  tslen |-> t, via |-> "tm"]] :
         d \in {<<>>, <<1>>, <<1, 2, 3, 4, 5, 6>>, <<1, 2, 3, 4, 5, 6, 7>>}, t \in {0, 1, 2, 6, 7, 8}}
    [] i = 12 -> {[op |-> "tm.unpack", a |-> [octets |-> [TmEnc(TmOf(TmSample)) EXCEPT ![j] = b], tslen |-> 7, via |-> "tm"]] :
         j \in 1..25, b \in {0, 1, 127, 128, 255}}
    [] i = 13 -> {[op |-> "tm.svc_raw", a |-> [octets |-> Take(TmEnc(TmOf(TmSample)), k)]] : k \in 0..10}

PusLaw(op, a) ==
  CASE op = "tc.rt" -> TcFits(a.p) => (TcLaw_RT(a.p) /\ TcLaw_Suffix(a.p, a.sfx))
    [] op = "tc.unpack" ->
         LET d == TcDec(a.octets)
         IN d.ok => /\ d.n >= TcMinLen /\ d.n <= Len(a.octets)
                    /\ TcEnc(d.v) = Take(a.octets, d.n)
                    /\ TcDec(Take(a.octets, d.n)) = d
    [] op = "tm.rt" -> TmFits(a.p) => (TmLaw_RT(a.p) /\ TmLaw_Suffix(a.p, a.sfx))
    [] op = "tm.unpack" ->
         LET d == TmDec(a.octets, a.tslen)
         IN d.ok => /\ d.n >= TmMinLen(a.tslen) /\ d.n <= Len(a.octets)
                    /\ TmEnc(d.v) = Take(a.octets, d.n)
                    /\ Len(d.v.stamp) = a.tslen
    [] OTHER -> TRUE
=============================================================================
