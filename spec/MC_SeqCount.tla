----------------------------- MODULE MC_SeqCount -----------------------------
EXTENDS SeqCount, Json

\* "" | "\n" | "x\n" | "-1\n" | " 3\n" | "3 \n" | "3" | "03\n" | 2^W "\n" | "1\n7\n" | "12x\n" | 2^W - 1 "\n"
BadDef == { <<>>, <<10>>, <<120, 10>>, <<45, 49, 10>>, <<32, 51, 10>>, <<49, 32, 10>>, <<49>>, <<48, 49, 10>>,
            Digits(2^W) \o <<10>>, <<49, 10, 55, 10>>, <<49, 50, 120, 10>>, Digits(2^W - 1) \o <<10>>,
            <<49, 46, 48, 10>>, <<43, 49, 10>> }

\* The reading on decimal strings (used by the trace specification for widths beyond TLC's integers) is the integer one
ASSUME \A c \in BadDef \cup {Digits(n) \o <<10>> : n \in 0..(2^W + 2)} :
         LET r == Read([c |-> c])  d == ReadD([c |-> c], W)
         IN /\ r.ok = d.ok
            /\ ~r.ok => r.err = d.err
            /\ r.ok => /\ Digits(r.v) = d.d
                       /\ NextD(d.d, W) = Digits((r.v + 1) % Modulus)
ASSUME Read(Missing) = ReadD(Missing, W)

Emit == PrintT("EMIT " \o ToJson([w |-> W,
                                  src |-> [file |-> file, mem |-> mem],
                                  ev |-> ev',
                                  dst |-> [file |-> file', mem |-> mem']]))
=============================================================================
