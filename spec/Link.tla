-------------------------------- MODULE Link --------------------------------
(***************************************************************************)
(* End-to-end session composed from the library's pieces (growth beyond    *)
(* the listed properties; ties C19, C02, C13, C15, C16 together):          *)
(*                                                                         *)
(*  ground: sequence counter -> PusTc -> pack -> verification tracker      *)
(*          add_tc -> uplink byte channel (arbitrary fragmentation)        *)
(*  board : stream parser -> PusTc.unpack -> for each telecommand the      *)
(*          scripted service-1 reports (create_*_tm) -> pack -> downlink   *)
(*  ground: stream parser -> Service1Tm.unpack -> tracker add_tm           *)
(*                                                                         *)
(* One action per public call sequence of one component; the channels are  *)
(* (pending octets, queue of chunks handed to the receiver's parser).      *)
(* Reuses SpacePacket!Scan, Pus!TcEnc/TcDec, Pus1!Srv1*, Verificator!Upd.  *)
(***************************************************************************)
EXTENDS Pus1, Verificator

CONSTANTS Scripts,      \* Scripts[i]: sequence of <<subservice, step id>> the board emits for the i-th received telecommand
          Cuts,         \* chunk sizes a channel may deliver (besides "everything pending")
          MaxChunks     \* bound on chunks waiting in a receiver's queue

VARIABLES cnt,          \* ground sequence counter value (next to be used)
          sent,         \* telecommand parameter records sent so far, in order
          upP, upQ,     \* uplink: pending octets, board-side queue of chunks
          brx,          \* telecommands decoded by the board, in order
          todo,         \* reports the board still has to emit, in order: [req, sub, k]
          dnP, dnQ,     \* downlink: pending octets, ground-side queue of chunks
          last          \* name of the last action

lvars == <<cnt, sent, upP, upQ, brx, todo, dnP, dnQ, last, tab, ev>>
LView == <<cnt, sent, upP, upQ, brx, todo, dnP, dnQ, last, tab>>

NTc == Len(Scripts)
TcIdRaw == 4096 + 2048 + 66          \* packet ID of the telecommands: TC, secondary header, APID 0x42
TmApid == 5
TmIdRaw == 2048 + TmApid             \* packet ID of the reports
Stamp == Zeros(7)
FailNotice == <<[w |-> 1, code |-> <<3>>, data |-> <<1, 2>>]>>

TcPar(i, seq) == [apid |-> 66, seq |-> seq, ack |-> 15, service |-> 17, subservice |-> i, source |-> 0, data |-> <<i>>]
ReportPar(e) == [apid |-> TmApid, seq |-> 0, ver |-> 0, timeref |-> 0, dest |-> 0, stamp |-> Stamp, sub |-> e.sub, req |-> e.req,
                 step |-> IF e.sub \in {5, 6} THEN <<[w |-> 1, v |-> <<e.k>>]>> ELSE <<>>,
                 fail |-> IF e.sub % 2 = 0 THEN FailNotice ELSE <<>>]
ReportEnc(e) == TmEnc(TmOf(Srv1TmParams(ReportPar(e), e.req)))

LInit == /\ cnt = 0 /\ sent = <<>> /\ upP = <<>> /\ upQ = <<>> /\ brx = <<>> /\ todo = <<>> /\ dnP = <<>> /\ dnQ = <<>>
         /\ last = "init" /\ tab = [t \in TCs |-> Absent] /\ ev = [a |-> "init"]

\* ground: next sequence count, build + pack the telecommand, register it with the tracker, hand the octets to the uplink
SendTc == /\ Len(sent) < NTc
          /\ LET i == Len(sent) + 1
                 p == TcPar(i, cnt)
             IN /\ sent' = Append(sent, p)
                /\ upP' = upP \o TcEnc(TcOf(p))
                /\ tab' = [tab EXCEPT ![i] = Fresh]
                /\ ev' = [a |-> "send_tc", i |-> i, seq |-> cnt]
          /\ cnt' = (cnt + 1) % 16384
          /\ last' = "send"
          /\ UNCHANGED <<upQ, brx, todo, dnP, dnQ>>

Sizes(pending) == {k \in Cuts : k < Len(pending)} \cup {Len(pending)}
UpFeed(k) == /\ k >= 1 /\ k <= Len(upP) /\ Len(upQ) < MaxChunks
             /\ upQ' = Append(upQ, Take(upP, k)) /\ upP' = Drop(upP, k)
             /\ ev' = [a |-> "up_feed", k |-> k] /\ last' = "upfeed"
             /\ UNCHANGED <<cnt, sent, brx, todo, dnP, dnQ, tab>>
DownFeed(k) == /\ k >= 1 /\ k <= Len(dnP) /\ Len(dnQ) < MaxChunks
               /\ dnQ' = Append(dnQ, Take(dnP, k)) /\ dnP' = Drop(dnP, k)
               /\ ev' = [a |-> "down_feed", k |-> k] /\ last' = "downfeed"
               /\ UNCHANGED <<cnt, sent, upP, upQ, brx, todo, tab>>

\* board: one parser call; every returned packet is decoded and its scripted reports are scheduled
RECURSIVE Schedule(_, _, _)
Schedule(pkts, n, acc) ==      \* n = telecommands received before; acc = [brx, todo]
  IF pkts = <<>> THEN acc
  ELSE LET d == TcDec(Head(pkts))
           p == [apid |-> d.v.h.apid, seq |-> d.v.h.count, ack |-> d.v.ack, service |-> d.v.service,
                 subservice |-> d.v.subservice, source |-> d.v.source, data |-> d.v.data]
           req == ReqOfHdr(d.v.h)
           scr == Scripts[n + 1]
       IN Schedule(Tail(pkts), n + 1,
                   [brx |-> Append(acc.brx, p),
                    todo |-> acc.todo \o [j \in DOMAIN scr |-> [req |-> req, sub |-> scr[j][1], k |-> scr[j][2]]]])
BoardParse == /\ upQ # <<>>
              /\ LET r == Scan(Concat(upQ), 1, <<>>, {TcIdRaw})
                     s == Schedule(r.out, Len(brx), [brx |-> brx, todo |-> todo])
                 IN /\ brx' = s.brx /\ todo' = s.todo
                    /\ upQ' = IF r.rest = <<>> THEN <<>> ELSE <<r.rest>>
                    /\ ev' = [a |-> "board_parse", n |-> Len(r.out)]
              /\ last' = "bparse"
              /\ UNCHANGED <<cnt, sent, upP, dnP, dnQ, tab>>

\* board: emit the next scheduled report
BoardEmit == /\ todo # <<>>
             /\ dnP' = dnP \o ReportEnc(Head(todo))
             /\ todo' = Tail(todo)
             /\ ev' = [a |-> "board_emit", sub |-> Head(todo).sub, k |-> Head(todo).k]
             /\ last' = "emit"
             /\ UNCHANGED <<cnt, sent, upP, upQ, brx, dnQ, tab>>

\* ground: one parser call on the downlink; every report is decoded and fed to the tracker
TcIndexOf(req) == CHOOSE i \in 0..Len(sent) : (i = 0 /\ \A j \in DOMAIN sent : ReqOfTc(sent[j]) # req) \/ (i > 0 /\ ReqOfTc(sent[i]) = req)
RECURSIVE Absorb(_, _)
Absorb(pkts, tb) ==
  IF pkts = <<>> THEN tb
  ELSE LET d == Srv1Dec(Head(pkts), 7, 1, 1)
           i == TcIndexOf(d.v.req)
           k == IF Has(d.v.step) THEN Get(d.v.step).v[1] ELSE 0
       IN Absorb(Tail(pkts), IF i > 0 /\ tb[i] # Absent THEN [tb EXCEPT ![i] = Upd(tb[i], d.v.tm.subservice, k)] ELSE tb)
GroundParse == /\ dnQ # <<>>
               /\ LET r == Scan(Concat(dnQ), 1, <<>>, {TmIdRaw})
                  IN /\ tab' = Absorb(r.out, tab)
                     /\ dnQ' = IF r.rest = <<>> THEN <<>> ELSE <<r.rest>>
                     /\ ev' = [a |-> "ground_parse", n |-> Len(r.out)]
               /\ last' = "gparse"
               /\ UNCHANGED <<cnt, sent, upP, upQ, brx, todo, dnP>>

LNext == \/ SendTc
         \/ \E k \in Sizes(upP) : UpFeed(k)
         \/ BoardParse
         \/ BoardEmit
         \/ \E k \in Sizes(dnP) : DownFeed(k)
         \/ GroundParse
LSpec == LInit /\ [][LNext]_lvars

(***************************************************************************)
(* Properties                                                              *)
(***************************************************************************)
\* the board receives the telecommands exactly once, complete, identical, in order
Inv_InOrder == IsPrefix(brx, sent)
\* sequence counts are consecutive from 0 and request IDs are pairwise different
Inv_SeqCount == \A i \in DOMAIN sent : sent[i].seq = i - 1
Inv_ReqUnique == \A i, j \in DOMAIN sent : i # j => ReqOfTc(sent[i]) # ReqOfTc(sent[j])
\* a telecommand's record is always the result of a prefix of its script (reports arrive in order, none lost, none duplicated)
AfterPrefix(scr, n) == FoldLeft(LAMBDA s, e : Upd(s, e[1], e[2]), Fresh, SubSeq(scr, 1, n))
Inv_ScriptPrefix == \A i \in DOMAIN sent : \E n \in 0..Len(Scripts[i]) : tab[i] = AfterPrefix(Scripts[i], n)
\* once everything has been delivered the tracker shows every script complete
Drained == Len(sent) = NTc /\ upP = <<>> /\ upQ = <<>> /\ todo = <<>> /\ dnP = <<>> /\ dnQ = <<>> /\ Len(brx) = NTc
Inv_Done == Drained => \A i \in 1..NTc : tab[i] = AfterPrefix(Scripts[i], Len(Scripts[i]))
\* nothing is stuck: right after a parser call the receiver's queue holds no complete packet
Inv_NoStuck == /\ (last = "bparse" => Scan(Concat(upQ), 1, <<>>, {TcIdRaw}).out = <<>>)
               /\ (last = "gparse" => Scan(Concat(dnQ), 1, <<>>, {TmIdRaw}).out = <<>>)
=============================================================================
