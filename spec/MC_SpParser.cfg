SPECIFICATION Spec
CHECK_DEADLOCK FALSE
VIEW View
INVARIANT Inv_Prefix
INVARIANT Inv_Tail
INVARIANT Inv_Done
INVARIANT Inv_Prompt
PROPERTY Act_ExactlyOnce
ACTION_CONSTRAINT Emit
