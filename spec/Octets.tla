------------------------------- MODULE Octets -------------------------------
(***************************************************************************)
(* Shared vocabulary of the spacepackets specification.                    *)
(*                                                                         *)
(*  - wire data are sequences of octets (0..255);                          *)
(*  - bit layouts are written with \div, % and * only (never copied from   *)
(*    the implementation's shifts and masks);                              *)
(*  - quantities that may exceed 2^31-1 are carried as big-endian octet    *)
(*    strings of their declared width (TLC integers are 32 bit);           *)
(*  - CRC-16/CCITT-FALSE is computed here from its polynomial.             *)
(*  - decoder results are records:  accepted  [ok |-> TRUE, v, n]          *)
(*                                  rejected  [ok |-> FALSE, rej]          *)
(*    where rej is the sequence of exception families the statement of the *)
(*    property allows for that refusal.                                    *)
(***************************************************************************)
EXTENDS Integers, Sequences, SequencesExt, FiniteSets, Bitwise, TLC

Octet == 0..255

Pow2(n) == 2^n
Bits(x, lo, n) == (x \div (2^lo)) % (2^n)

IsOctets(s) == \A i \in DOMAIN s : s[i] \in Octet

U8(x)  == << x >>
U16(x) == << x \div 256, x % 256 >>
U24(x) == << x \div 65536, (x \div 256) % 256, x % 256 >>
\* big-endian, n octets, 0 <= v < 2^31 (n may be larger than 4: leading zeros)
BE(n, v) == [i \in 1..n |-> IF n - i >= 4 THEN 0 ELSE (v \div (256^(n-i))) % 256]
\* value of a big-endian octet string; only applied where the result fits 31 bits
BEval(s) == FoldLeft(LAMBDA acc, b : acc * 256 + b, 0, s)
\* does the big-endian octet string denote a value < 2^31 ?
FitsInt(s) == \/ Len(s) < 4
              \/ /\ \A i \in 1..(Len(s) - 4) : s[i] = 0
                 /\ s[Len(s) - 3] < 128

MinOf(a, b) == IF a <= b THEN a ELSE b
MaxOf(a, b) == IF a >= b THEN a ELSE b
Take(s, n)  == SubSeq(s, 1, MinOf(n, Len(s)))        \* clamps: Take(s, n) = s when n >= Len(s)
Drop(s, n)  == SubSeq(s, n + 1, Len(s))
Slice(s, from, len) == SubSeq(s, from, from + len - 1)     \* 1-based start
Zeros(n) == [i \in 1..n |-> 0]
Rep(n, b) == [i \in 1..n |-> b]

\* lexicographic comparison of equal-length octet strings (= numeric order)
RECURSIVE OctLess(_, _)
OctLess(a, b) == IF a = <<>> THEN FALSE
                 ELSE IF a[1] # b[1] THEN a[1] < b[1]
                 ELSE OctLess(Tail(a), Tail(b))
OctLeq(a, b) == a = b \/ OctLess(a, b)
AllZero(s) == \A i \in DOMAIN s : s[i] = 0

\* strip leading zero octets down to width w; TRUE iff value fits w octets
FitsWidth(s, w) == Len(s) <= w \/ AllZero(Take(s, Len(s) - w))
ToWidth(s, w) == IF Len(s) >= w THEN Drop(s, Len(s) - w) ELSE Zeros(w - Len(s)) \o s

(***************************************************************************)
(* CRC-16/CCITT-FALSE: polynomial x^16+x^12+x^5+1 (0x1021 = 4129),         *)
(* initial value 0xFFFF, no reflection, no final xor.                      *)
(***************************************************************************)
RECURSIVE TabBits(_, _)
TabBits(r, n) == IF n = 0 THEN r
                 ELSE LET sh == (r * 2) % 65536
                      IN  TabBits(IF r >= 32768 THEN sh ^^ 4129 ELSE sh, n - 1)
CrcTab == [b \in 0..255 |-> TabBits(b * 256, 8)]
CrcStep(crc, byte) == ((crc % 256) * 256) ^^ CrcTab[(crc \div 256) ^^ byte]
Crc16From(init, s) == FoldLeft(CrcStep, init, s)
Crc16(s) == Crc16From(65535, s)
WithCrc(s) == s \o U16(Crc16(s))

\* flip bits: pattern `pat` (an integer < 2^16 whose binary digits are the
\* burst, most significant digit first, width w) starting at 0-based bit
\* offset `off` counted from the most significant bit of the first octet
BitAt(s, k) == Bits(s[(k \div 8) + 1], 7 - (k % 8), 1)
FlipBits(s, off, w, pat) ==
  [i \in 1..Len(s) |->
     LET mask == FoldLeft(LAMBDA acc, j :
                     LET k == (i - 1) * 8 + j   \* absolute bit index of bit j of octet i
                     IN  IF k >= off /\ k < off + w /\ Bits(pat, w - 1 - (k - off), 1) = 1
                         THEN acc + 2^(7 - j) ELSE acc,
                   0, <<0,1,2,3,4,5,6,7>>)
     IN s[i] ^^ mask]

(***************************************************************************)
(* Result conventions                                                      *)
(***************************************************************************)
Acc(v, n) == [ok |-> TRUE, v |-> v, n |-> n]
Rej(fams) == [ok |-> FALSE, rej |-> fams]

\* expectation records handed to the conformance layer
ExpRej(fams) == [rej |-> fams]
ExpAny == [any |-> TRUE]
\* does an observed outcome `o` satisfy expectation `x` ?
\*   x = [rej |-> <<f1,..>>]   : o must be [exc |-> f] with f among the families
\*   x = [anyof |-> <<x1,..>>] : o must match one of the plain alternatives
\*   otherwise                 : o = x
\* a refusal observed only AFTER octets had been packed (o.late) satisfies an expected refusal only where the expectation
\* says so (x.late): "packing must fail" is not satisfied by a later decode error
MatchPlain(x, o) == IF "rej" \in DOMAIN x
                    THEN /\ "exc" \in DOMAIN o /\ \E i \in DOMAIN x.rej : (x.rej[i] = o.exc \/ x.rej[i] = "*")
                         /\ ("late" \in DOMAIN o => "late" \in DOMAIN x)
                         \* x.after: the state the object must show after the refused call
                         /\ ("after" \in DOMAIN x => ("after" \in DOMAIN o /\ o.after = x.after))
                    ELSE x = o
\*   x = [any |-> TRUE]        : unjudged - every outcome is acceptable
\*   x = [okorrej |-> <<f1,..>>]: any object, or a refusal from the listed families
Matches(x, o) == IF "any" \in DOMAIN x THEN TRUE
                 ELSE IF "okorrej" \in DOMAIN x
                 THEN ("exc" \notin DOMAIN o) \/ (\E i \in DOMAIN x.okorrej : x.okorrej[i] = o.exc)
                 ELSE IF "anyof" \in DOMAIN x
                 THEN \E i \in DOMAIN x.anyof : MatchPlain(x.anyof[i], o)
                 ELSE MatchPlain(x, o)

Opt(s) == s                         \* optional item: sequence of 0 or 1 element
Has(s) == Len(s) > 0
Get(s) == s[1]
=============================================================================
