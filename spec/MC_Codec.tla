------------------------------ MODULE MC_Codec ------------------------------
(***************************************************************************)
(* Bounded exhaustive exploration of a codec area: every vector of the     *)
(* area's grid is visited, the area's laws are checked as an invariant in  *)
(* every visited state, and the specification's expectation for the vector *)
(* is emitted so that the harness can execute it on the implementation.    *)
(***************************************************************************)
EXTENDS Codec, Json

CONSTANT Area

VARIABLE cur

Init == cur = [k |-> "idle"]

PickPart == /\ cur.k = "idle"
            /\ \E i \in 1..NParts(Area) : cur' = [k |-> "part", i |-> i]

PickVector == /\ cur.k = "part"
              /\ \E g \in GridPart(Area, cur.i) : cur' = [k |-> "vec", op |-> g.op, a |-> g.a]

Next == PickPart \/ PickVector

Spec == Init /\ [][Next]_cur

Emit == cur'.k = "vec" =>
          PrintT("EMIT " \o ToJson([op |-> cur'.op, a |-> cur'.a, o |-> Exp(cur'.op, cur'.a)]))

InvLaw == cur.k = "vec" => Law(cur.op, cur.a)
=============================================================================
