SPECIFICATION TraceSpec
CHECK_DEADLOCK FALSE
CONSTANT Tier = "quick"
