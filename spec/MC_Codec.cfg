SPECIFICATION Spec
CHECK_DEADLOCK FALSE
INVARIANT InvLaw
ACTION_CONSTRAINT Emit
