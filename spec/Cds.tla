-------------------------------- MODULE Cds --------------------------------
(***************************************************************************)
(* CCSDS 301.0-B-4 3.3: day segmented time code, "short" variant:          *)
(*   P-field 0x40 (time code ID 100b, CCSDS epoch, 16-bit day segment, no  *)
(*   sub-millisecond segment) | day (16) | millisecond of day (32).        *)
(* Epoch 1958-01-01T00:00:00Z; Unix epoch = CCSDS day 4383.                *)
(*                                                                         *)
(* Calendar arithmetic (proleptic Gregorian) is written here with integer  *)
(* operations only - it is independent of the implementation's datetime.   *)
(* Instants are pairs <<unix day, millisecond of day>> (seconds since 1970 *)
(* exceed 31 bits); their lexicographic order is the order of instants.    *)
(* Milliseconds decoded from arbitrary octets are kept as 4 octets.        *)
(***************************************************************************)
EXTENDS Octets

MsPerDay == 86400000
CcsdsToUnixDays == 4383            \* 1958-01-01 .. 1970-01-01 = 12 years incl. 3 leap days

CdsEnc(d, ms) == <<64>> \o U16(d) \o BE(4, ms)

\* must accept 0x40; must refuse a time code ID other than 100b and the 24-bit day segment;
\* other P-field bits (epoch, sub-millisecond resolution) are not judged
CdsPfieldWrong(p) == Bits(p, 4, 3) # 4 \/ Bits(p, 2, 1) = 1
CdsPfieldExact(p) == p = 64

CdsDec(b) == IF Len(b) < 7 THEN Rej(<<"value">>)
             ELSE IF CdsPfieldWrong(b[1]) THEN Rej(<<"value">>)
             ELSE Acc([days |-> b[2] * 256 + b[3], ms |-> SubSeq(b, 4, 7)], 7)

\* civil date <-> days since 1970-01-01 (days may be negative down to -719468)
DaysFromCivil(y0, m, d) ==
  LET y   == IF m <= 2 THEN y0 - 1 ELSE y0
      era == y \div 400
      yoe == y - era * 400
      mp  == IF m > 2 THEN m - 3 ELSE m + 9
      doy == (153 * mp + 2) \div 5 + d - 1
      doe == yoe * 365 + yoe \div 4 - yoe \div 100 + doy
  IN era * 146097 + doe - 719468

CivilFromDays(z0) ==
  LET z   == z0 + 719468
      era == z \div 146097
      doe == z - era * 146097
      yoe == (doe - doe \div 1460 + doe \div 36524 - doe \div 146096) \div 365
      doy == doe - (365 * yoe + yoe \div 4 - yoe \div 100)
      mp  == (5 * doy + 2) \div 153
      d   == doy - (153 * mp + 2) \div 5 + 1
      m   == IF mp < 10 THEN mp + 3 ELSE mp - 9
      y   == yoe + era * 400 + (IF m <= 2 THEN 1 ELSE 0)
  IN [y |-> y, mo |-> m, d |-> d]

\* the instant of a stamp (ms < 2^31 here) and its calendar reading; ms may exceed a day
CdsUnix(d, ms) == << d - CcsdsToUnixDays + ms \div MsPerDay, ms % MsPerDay >>
CdsCivil(d, ms) ==
  LET u == CdsUnix(d, ms)
      c == CivilFromDays(u[1])
      r == u[2]
  IN [y |-> c.y, mo |-> c.mo, d |-> c.d, h |-> r \div 3600000, mi |-> (r \div 60000) % 60,
      s |-> (r \div 1000) % 60, ms |-> r % 1000]
InstLess(a, b) == a[1] < b[1] \/ (a[1] = b[1] /\ a[2] < b[2])

\* stamp of a UTC datetime [y, mo, d, h, mi, s, us], millisecond floor
CdsFromDt(t) == [days |-> DaysFromCivil(t.y, t.mo, t.d) + CcsdsToUnixDays,
                 ms   |-> ((t.h * 60 + t.mi) * 60 + t.s) * 1000 + t.us \div 1000]
\* the next millisecond (round up), with day carry
CdsNextMs(st) == IF st.ms + 1 = MsPerDay THEN [days |-> st.days + 1, ms |-> 0] ELSE [days |-> st.days, ms |-> st.ms + 1]

\* stamp + timedelta [days, secs, us] (normalised: 0 <= secs < 86400, 0 <= us < 10^6, days >= 0)
CdsAdd(st, td) ==
  LET tot == st.ms + td.secs * 1000 + td.us \div 1000
      nd  == st.days + td.days + tot \div MsPerDay
  IN IF nd > 65535 THEN Rej(<<"overflow">>) ELSE Acc([days |-> nd, ms |-> tot % MsPerDay], 0)

CdsView(st) == [days |-> st.days, ms |-> BE(4, st.ms), octets |-> CdsEnc(st.days, st.ms),
                unix |-> CdsUnix(st.days, st.ms), civil |-> CdsCivil(st.days, st.ms)]

CdsOps == {"cds.rt", "cds.unpack", "cds.from_dt", "cds.add", "cds.cmp"}

CdsExp(op, a) ==
  CASE op = "cds.rt" ->
         [view |-> CdsView(a.st), len |-> 7, pfield |-> <<64>>, dec |-> [days |-> a.st.days, ms |-> BE(4, a.st.ms)],
          draw |-> [days |-> a.st.days, ms |-> BE(4, a.st.ms)], dread |-> CdsView(a.st), eq |-> TRUE, code |-> 4]
    [] op = "cds.unpack" ->
         LET d == CdsDec(a.octets)
             acc == [st |-> d.v, repack |-> <<64>> \o SubSeq(a.octets, 2, 7)]
         IN IF ~d.ok THEN ExpRej(d.rej)
            ELSE IF CdsPfieldExact(a.octets[1]) THEN acc
            ELSE [anyof |-> <<acc, ExpRej(<<"value">>)>>]
    [] op = "cds.from_dt" ->
         LET fl == CdsFromDt(a.t) IN
         IF a.t.us % 1000 = 0 THEN [view |-> CdsView(fl)]
         ELSE [anyof |-> <<[view |-> CdsView(fl)], [view |-> CdsView(CdsNextMs(fl))]>>]
    [] op = "cds.add" ->
         LET r == CdsAdd(a.st, a.td) IN
         IF ~r.ok THEN ExpRej(r.rej)
         ELSE IF a.td.us % 1000 = 0 THEN [view |-> CdsView(r.v)]
         ELSE LET r2 == CdsAdd(a.st, [a.td EXCEPT !.us = 1000 * (a.td.us \div 1000 + 1)]) IN   \* may round up (us + 1 ms <= 10^6)
              [anyof |-> <<[view |-> CdsView(r.v)]>> \o (IF r2.ok THEN <<[view |-> CdsView(r2.v)]>> ELSE <<ExpRej(r2.rej)>>)]
    [] op = "cds.cmp" ->
         LET u1 == CdsUnix(a.s1.days, a.s1.ms)  u2 == CdsUnix(a.s2.days, a.s2.ms)
         IN [unixlt |-> InstLess(u1, u2), dtlt |-> InstLess(u1, u2), eq |-> (a.s1 = a.s2)]

(***************************************************************************)
(* Laws                                                                    *)
(***************************************************************************)
CdsLaw_RT(st) == CdsDec(CdsEnc(st.days, st.ms)) = Acc([days |-> st.days, ms |-> BE(4, st.ms)], 7)
CdsLaw_Civil(st) == LET c == CdsCivil(st.days, st.ms)
                    IN /\ DaysFromCivil(c.y, c.mo, c.d) = st.days - CcsdsToUnixDays
                       /\ CdsFromDt([y |-> c.y, mo |-> c.mo, d |-> c.d, h |-> c.h, mi |-> c.mi, s |-> c.s, us |-> c.ms * 1000]) = st
CdsLaw_Epoch == /\ CdsCivil(0, 0) = [y |-> 1958, mo |-> 1, d |-> 1, h |-> 0, mi |-> 0, s |-> 0, ms |-> 0]
                /\ CdsCivil(4383, 0) = [y |-> 1970, mo |-> 1, d |-> 1, h |-> 0, mi |-> 0, s |-> 0, ms |-> 0]
                /\ CdsCivil(65535, 86399999) = [y |-> 2137, mo |-> 6, d |-> 6, h |-> 23, mi |-> 59, s |-> 59, ms |-> 999]
CdsLaw_Add(st, td) == LET r == CdsAdd(st, td) IN
                      r.ok => /\ r.v.ms < MsPerDay /\ r.v.days <= 65535
                              \* integer arithmetic on total milliseconds (in days + ms to stay below 2^31)
                              /\ r.v.days * 2 + r.v.ms \div 43200000 =
                                   (st.days + td.days) * 2 + (st.ms + td.secs * 1000 + td.us \div 1000) \div 43200000
                              /\ r.v.ms % 43200000 = (st.ms + td.secs * 1000 + td.us \div 1000) % 43200000
CdsLaw_Mono(s1, s2) == (s1.days < s2.days \/ (s1.days = s2.days /\ s1.ms < s2.ms))
                          <=> InstLess(CdsUnix(s1.days, s1.ms), CdsUnix(s2.days, s2.ms))

(***************************************************************************)
(* Bounded grids                                                           *)
(***************************************************************************)
CdsDayGrid == {0, 1, 4382, 4383, 4384, 32767, 54000, 65534, 65535}
CdsMsGrid  == {0, 1, 999, 1000, 43200000, 86399000, 86399999}
CdsStampGrid == [days : CdsDayGrid, ms : CdsMsGrid]
CdsTdGrid == [days : {0, 1, 2}, secs : {0, 1, 43200, 86399}, us : {0, 1000, 999000}]
             \cup [days : {0}, secs : {0, 1}, us : {1, 500, 999, 1001, 999999}]
             \cup [days : {65535, 65536, 61152, 11535}, secs : {0}, us : {0}]
CdsDateGrid == {<<1958, 1, 1>>, <<1958, 1, 2>>, <<1958, 12, 31>>, <<1960, 2, 29>>, <<1965, 3, 4>>, <<1969, 12, 31>>,
                <<1970, 1, 1>>, <<1972, 2, 29>>, <<1999, 12, 31>>, <<2000, 2, 29>>, <<2000, 3, 1>>, <<2038, 1, 19>>,
                <<2100, 2, 28>>, <<2100, 3, 1>>, <<2106, 2, 7>>, <<2137, 6, 6>>}
CdsTimeGrid == {<<0, 0, 0, 0>>, <<5, 6, 7, 8000>>, <<5, 6, 7, 9000>>, <<23, 59, 59, 999000>>, <<23, 59, 59, 999999>>,
                <<12, 0, 0, 500>>, <<0, 0, 0, 1>>, <<0, 0, 0, 999>>, <<0, 0, 1, 1000>>, <<13, 14, 15, 123456>>}

CdsNParts == 6
CdsGridPart(i) ==
  CASE i = 1 -> {[op |-> "cds.rt", a |-> [st |-> st, sfx |-> s]] : st \in CdsStampGrid, s \in {<<>>, <<64, 0, 0>>}}
    [] i = 2 -> {[op |-> "cds.unpack", a |-> [octets |-> Take(<<64, 17, 34, 1, 2, 3, 4, 99>>, k)]] : k \in 0..8}
                \cup {[op |-> "cds.unpack", a |-> [octets |-> <<p, 1, 2, 0, 0, 3, 4>>]] : p \in 0..255}
                \cup {[op |-> "cds.unpack", a |-> [octets |-> <<64>> \o d \o m]] :
                        d \in {<<0, 0>>, <<255, 255>>, <<128, 0>>}, m \in {<<0, 0, 0, 0>>, <<5, 38, 91, 255>>, <<5, 38, 92, 0>>, <<255, 255, 255, 255>>, <<128, 0, 0, 0>>}}
    [] i = 3 -> {[op |-> "cds.from_dt", a |-> [t |-> [y |-> dt[1], mo |-> dt[2], d |-> dt[3], h |-> tm[1], mi |-> tm[2], s |-> tm[3], us |-> tm[4]]]] :
                    dt \in CdsDateGrid, tm \in CdsTimeGrid}
    [] i = 4 -> {[op |-> "cds.add", a |-> [st |-> st, td |-> td]] : st \in CdsStampGrid, td \in CdsTdGrid}
    [] i = 5 -> {[op |-> "cds.cmp", a |-> [s1 |-> s1, s2 |-> s2]] : s1 \in CdsStampGrid, s2 \in [days : {0, 4382, 4383, 65535}, ms : {0, 1, 86399999}]}
    [] i = 6 -> {[op |-> "cds.add", a |-> [st |-> [days |-> 100, ms |-> 86399000 + k], td |-> [days |-> 0, secs |-> s, us |-> u]]] :
                    k \in {0, 1, 999}, s \in {0, 1, 2}, u \in {0, 1000, 999000, 998000}}
                \* the start stamp is an object built by from_datetime
                \cup {[op |-> "cds.add", a |-> [st |-> st, td |-> td, via |-> "from_dt"]] :
                        st \in [days : {0, 4382, 4383, 65535}, ms : {0, 1, 86399999}], td \in [days : {0, 1}, secs : {0, 86399}, us : {0, 999000}]}

CdsLaw(op, a) ==
  CASE op = "cds.rt" -> CdsLaw_RT(a.st) /\ CdsLaw_Civil(a.st) /\ CdsLaw_Epoch
    [] op = "cds.from_dt" -> LET st == CdsFromDt(a.t) c == CdsCivil(st.days, st.ms) IN
                             /\ <<c.y, c.mo, c.d, c.h, c.mi, c.s, c.ms>> = <<a.t.y, a.t.mo, a.t.d, a.t.h, a.t.mi, a.t.s, a.t.us \div 1000>>
                             /\ st.days \in 0..65535 /\ st.ms < MsPerDay
    [] op = "cds.add" -> CdsLaw_Add(a.st, a.td)
    [] op = "cds.cmp" -> CdsLaw_Mono(a.s1, a.s2)
    [] OTHER -> TRUE
=============================================================================
