---------------------------- MODULE SpacePacket ----------------------------
(***************************************************************************)
(* CCSDS 133.0-B-2 section 4.1.3: Space Packet primary header.             *)
(*                                                                         *)
(*   octets 1-2 : version (3) | type (1) | sec. hdr flag (1) | APID (11)   *)
(*   octets 3-4 : sequence flags (2) | sequence count (14)                 *)
(*   octets 5-6 : packet data length (16) = octets in data field - 1       *)
(*                                                                         *)
(* Abstract header: [ver, type, shf, apid, flags, count, dlen].            *)
(***************************************************************************)
EXTENDS Octets

SpHdrLen == 6

SpInRange(h) == /\ h.apid  \in 0..2047
                /\ h.count \in 0..16383
                /\ h.dlen  \in 0..65535

SpPacketIdRaw(h) == h.type * 4096 + h.shf * 2048 + h.apid          \* 13 bits
SpPscRaw(h)      == h.flags * 16384 + h.count                      \* 16 bits

SpHdrEnc(h) == U16(h.ver * 8192 + SpPacketIdRaw(h)) \o U16(SpPscRaw(h)) \o U16(h.dlen)

SpHdrDec(b) == [ver   |-> Bits(b[1], 5, 3),
                type  |-> Bits(b[1], 4, 1),
                shf   |-> Bits(b[1], 3, 1),
                apid  |-> Bits(b[1], 0, 3) * 256 + b[2],
                flags |-> Bits(b[3], 6, 2),
                count |-> Bits(b[3], 0, 6) * 256 + b[4],
                dlen  |-> b[5] * 256 + b[6]]

SpPacketLen(h) == h.dlen + 7
\* total length a raw buffer declares for itself (needs Len(b) >= 6)
SpDeclaredLen(b) == b[5] * 256 + b[6] + 7
\* the 13-bit packet identification of a raw buffer starting at octet i
SpId13(b, i) == Bits(b[i], 0, 5) * 256 + b[i + 1]

SpPidFromRaw(raw) == [type |-> Bits(raw, 12, 1), shf |-> Bits(raw, 11, 1), apid |-> raw % 2048]
SpPscFromRaw(raw) == [flags |-> Bits(raw, 14, 2), count |-> raw % 16384]

\* generic space packet: the secondary header is mandatory iff the flag is
\* set; otherwise user data is mandatory.  sec / data are optional items.
SpGenericEnc(h, sec, data) ==
  IF h.shf = 1 /\ ~Has(sec) THEN Rej(<<"value">>)
  ELSE IF h.shf = 0 /\ ~Has(data) THEN Rej(<<"value">>)
  ELSE Acc(SpHdrEnc(h) \o (IF h.shf = 1 THEN Get(sec) ELSE <<>>)
                       \o (IF Has(data) THEN Get(data) ELSE <<>>), 0)

(***************************************************************************)
(* Stream scanning: the reference behaviour of one parser call (used by    *)
(* SpParser.tla and Link.tla).                                             *)
(***************************************************************************)
Concat(q) == FoldLeft(LAMBDA acc, c : acc \o c, <<>>, q)

(* Reference behaviour of one parser call on the concatenated buffer b,    *)
(* starting at 1-based index i.                                            *)
RECURSIVE Scan(_, _, _, _)
Scan(b, i, out, ids) ==
  IF i + 5 > Len(b) THEN [out |-> out, rest |-> SubSeq(b, i, Len(b))]       \* < 6 octets left: keep them
  ELSE IF SpId13(b, i) \in ids
       THEN LET n == b[i + 4] * 256 + b[i + 5] + 7
            IN IF i + n - 1 > Len(b) THEN [out |-> out, rest |-> SubSeq(b, i, Len(b))]   \* incomplete: keep tail
               ELSE Scan(b, i + n, Append(out, SubSeq(b, i, i + n - 1)), ids)
       ELSE Scan(b, i + 1, out, ids)                                          \* not a registered ID: skip octet


(***************************************************************************)
(* Expected observations (shared by both conformance directions).          *)
(***************************************************************************)
SpOps == {"sph.build", "sph.unpack", "pid.from_raw", "psc.from_raw", "sp.apid_raw", "sp.pack"}

SpExp(op, a) ==
  CASE op = "sph.build" ->
         IF ~SpInRange(a.h) THEN ExpRej(<<"value">>)
         ELSE [octets |-> SpHdrEnc(a.h),
               plen   |-> SpPacketLen(a.h),
               hlen   |-> 6,
               pid    |-> SpPacketIdRaw(a.h),
               psc    |-> SpPscRaw(a.h),
               idb    |-> Take(SpHdrEnc(a.h), 2),
               tot    |-> a.h.dlen + 7,
               eq     |-> TRUE]
    [] op = "sph.unpack" ->
         IF Len(a.octets) < 6 THEN ExpRej(<<"value">>)
         ELSE LET h == SpHdrDec(a.octets)
              IN [h |-> h, plen |-> SpPacketLen(h), repack |-> Take(a.octets, 6),
                  pid |-> SpPacketIdRaw(h), psc |-> SpPscRaw(h)]
    [] op = "pid.from_raw" ->
         LET p == SpPidFromRaw(a.raw) IN [p |-> p, raw |-> a.raw % 8192]
    [] op = "psc.from_raw" ->
         LET p == SpPscFromRaw(a.raw) IN [p |-> p, raw |-> a.raw]
    [] op = "sp.apid_raw" ->
         IF Len(a.octets) < 6 THEN ExpRej(<<"value">>)
         ELSE [apid |-> Bits(a.octets[1], 0, 3) * 256 + a.octets[2]]
    [] op = "sp.pack" ->
         LET r == SpGenericEnc(a.h, a.sec, a.data)
         IN IF r.ok THEN [octets |-> r.v] ELSE ExpRej(r.rej)

(***************************************************************************)
(* Laws (checked by TLC in MC_Codec over the bounded grids)                *)
(***************************************************************************)
SpLaw_DecEnc(h) == SpHdrDec(SpHdrEnc(h)) = h
SpLaw_EncDec(b) == SpHdrEnc(SpHdrDec(b)) = Take(b, 6)
SpLaw_Words(h)  == /\ SpPidFromRaw(SpPacketIdRaw(h)) = [type |-> h.type, shf |-> h.shf, apid |-> h.apid]
                   /\ SpPscFromRaw(SpPscRaw(h)) = [flags |-> h.flags, count |-> h.count]
                   /\ Take(SpHdrEnc(h), 2) = U16(h.ver * 8192 + SpPacketIdRaw(h))
                   /\ SubSeq(SpHdrEnc(h), 3, 4) = U16(SpPscRaw(h))
SpLaw_Len(h)    == Len(SpHdrEnc(h)) = 6 /\ SpDeclaredLen(SpHdrEnc(h)) = SpPacketLen(h)

(***************************************************************************)
(* Bounded grid explored exhaustively by TLC (MC_Codec) and replayed on    *)
(* the implementation.  65 536 in-range headers, the refusal grid, decoder *)
(* inputs (boundary words, short inputs, suffixes) and generic packets.    *)
(***************************************************************************)
SpApidGrid  == {0, 1, 255, 256, 1023, 1024, 2046, 2047}
SpCountGrid == {0, 1, 255, 256, 8191, 8192, 16382, 16383}
SpDlenGrid  == {0, 1, 255, 256, 32767, 32768, 65534, 65535}
SpHdrGrid(ver) == [ver : {ver}, type : 0..1, shf : 0..1, apid : SpApidGrid, flags : 0..3,
                   count : SpCountGrid, dlen : SpDlenGrid]
SpBaseHdr == [ver |-> 0, type |-> 1, shf |-> 0, apid |-> 66, flags |-> 3, count |-> 22, dlen |-> 12]
SpBadHdrs == {[SpBaseHdr EXCEPT !.apid = x]  : x \in {-1, 2048, 2049, 4096, 65535, -2048}}
        \cup {[SpBaseHdr EXCEPT !.count = x] : x \in {-1, 16384, 16385, 32768, 65536}}
        \cup {[SpBaseHdr EXCEPT !.dlen = x]  : x \in {-1, 65536, 65537, 131072}}
SpWordGrid == {0, 1, 2, 255, 256, 2047, 2048, 4095, 4096, 8191, 8192, 16383, 16384, 32767,
               32768, 49152, 57344, 65534, 65535, 4660, 43690, 21845}
SpDecGrid == {U16(a) \o U16(b) \o U16(c) \o s :
                 a \in SpWordGrid, b \in SpWordGrid, c \in {0, 1, 255, 256, 65535},
                 s \in {<<>>, <<255>>, <<0, 0, 0, 0, 0, 0, 0>>}}
SpShortGrid == {<<>>, <<24>>, <<24, 1>>, <<24, 1, 192>>, <<24, 1, 192, 22>>, <<24, 1, 192, 22, 0>>}
SpGenericGrid == [h : {[SpBaseHdr EXCEPT !.shf = f, !.dlen = 3] : f \in 0..1},
                  sec : {<<>>, << <<>> >>, << <<1, 2, 3>> >>},
                  data : {<<>>, << <<>> >>, << <<9, 8>> >>}]

SpNParts == 14
SpGridPart(i) ==
  CASE i \in 1..8 -> {[op |-> "sph.build", a |-> [h |-> h]] : h \in SpHdrGrid(i - 1)}
    [] i = 9  -> {[op |-> "sph.build", a |-> [h |-> h]] : h \in SpBadHdrs}
                 \* headers that reach their values through a history (sub-objects mutated / setters used after pack)
                 \cup {[op |-> "sph.build", a |-> [h |-> h, via |-> v]] : v \in {"mutate", "setters"},
                        h \in [ver : {0, 5}, type : 0..1, shf : 0..1, apid : {0, 1023, 2047}, flags : {0, 3}, count : {0, 16383}, dlen : {0, 65535}]}
    [] i = 10 -> {[op |-> "sph.unpack", a |-> [octets |-> b]] : b \in SpDecGrid \cup SpShortGrid}
    [] i = 11 -> {[op |-> "sp.apid_raw", a |-> [octets |-> b]] : b \in SpShortGrid \cup {U16(w) \o <<0, 0, 0, 0>> : w \in SpWordGrid}}
    [] i = 12 -> {[op |-> "pid.from_raw", a |-> [raw |-> w]] : w \in SpWordGrid}
    [] i = 13 -> {[op |-> "psc.from_raw", a |-> [raw |-> w]] : w \in SpWordGrid}
    [] i = 14 -> {[op |-> "sp.pack", a |-> g] : g \in SpGenericGrid}

SpLaw(op, a) ==
  CASE op = "sph.build" -> SpInRange(a.h) => (SpLaw_DecEnc(a.h) /\ SpLaw_Words(a.h) /\ SpLaw_Len(a.h))
    [] op = "sph.unpack" -> Len(a.octets) >= 6 =>
                               (SpLaw_EncDec(a.octets) /\ SpInRange(SpHdrDec(a.octets))
                                /\ SpHdrDec(a.octets) = SpHdrDec(Take(a.octets, 6)))
    [] OTHER -> TRUE
=============================================================================
